package hashprefix

// Bounded stand-in for C11 (govc): Storage.Reset/Matches/Hashes,
// hashableSubdomains and prefixesFromStr work on SHA-256 sums, fixed-size
// arrays used as map keys and the public-suffix list, which the contract
// verifier does not model.  This test enumerates, on the real code, every
// input up to the stated bound and compares with a direct reading of the
// property.  It is a bounded check, not a proof.

import (
	"context"
	"crypto/sha256"
	"encoding/hex"
	"os"
	"slices"
	"sort"
	"strings"
	"testing"

	"golang.org/x/net/publicsuffix"
)

func boundedDepth(quick, thorough int) int {
	if os.Getenv("GOVC_BOUND_TIER") == "thorough" {
		return thorough
	}
	return quick
}

func fullHash(h string) string {
	s := sha256.Sum256([]byte(h))
	return hex.EncodeToString(s[:])
}

func listedSet(lines []string) map[string]bool {
	m := map[string]bool{}
	for _, l := range lines {
		if l == "" || l[0] == '#' {
			continue
		}
		m[l] = true
	}
	return m
}

// sequences calls f with every sequence over alphabet of length <= n.
func sequences(alphabet []string, n int, f func(seq []string)) {
	var rec func(cur []string)
	rec = func(cur []string) {
		f(cur)
		if len(cur) == n {
			return
		}
		for _, a := range alphabet {
			rec(append(slices.Clone(cur), a))
		}
	}
	rec(nil)
}

func TestBoundedC11(t *testing.T) {
	t.Run("storage", boundedStorage)
	t.Run("subdomains", boundedSubdomains)
	t.Run("prefixes", boundedPrefixes)
	t.Run("matcher", boundedMatcher)
}

func boundedStorage(t *testing.T) {
	lines := []string{"a.example", "b.example", "c.a.example", "# a comment", "", "a.example"}
	universe := []string{"a.example", "b.example", "c.a.example", "d.example", "example", "# a comment", ""}
	depth := boundedDepth(4, 6)
	strg, err := NewStorage("")
	if err != nil {
		t.Fatal(err)
	}
	n := 0
	sequences(lines, depth, func(seq []string) {
		n++
		// the storage is reused: a reset must forget the previous list
		text := strings.Join(seq, "\n")
		if len(seq) > 0 && n%2 == 0 {
			text += "\n"
		}
		cnt, rErr := strg.Reset(text)
		if rErr != nil {
			t.Fatalf("Reset(%q): %v", text, rErr)
		}
		want := listedSet(seq)
		nonComment := 0
		for _, l := range seq {
			if l != "" && l[0] != '#' {
				nonComment++
			}
		}
		if cnt != nonComment {
			t.Fatalf("Reset(%q) counted %d hosts, want %d", text, cnt, nonComment)
		}
		for _, h := range universe {
			if got := strg.Matches(h); got != want[h] {
				t.Fatalf("list %q: Matches(%q) = %v, want %v", text, h, got, want[h])
			}
		}
		// Hashes: exactly the full hashes of listed names under the prefixes asked for
		var prefs []Prefix
		for _, h := range universe {
			s := sha256.Sum256([]byte(h))
			prefs = append(prefs, Prefix(s[:PrefixLen]))
		}
		for mask := 0; mask < 1<<len(prefs); mask += 5 { // a spread of subsets
			var ask []Prefix
			wantH := map[string]bool{}
			for i, p := range prefs {
				if mask&(1<<i) == 0 {
					continue
				}
				ask = append(ask, p)
				for h := range want {
					s := sha256.Sum256([]byte(h))
					if Prefix(s[:PrefixLen]) == p {
						wantH[fullHash(h)] = true
					}
				}
			}
			gotH := map[string]bool{}
			for _, x := range strg.Hashes(ask) {
				gotH[x] = true
			}
			if len(gotH) != len(wantH) {
				t.Fatalf("list %q prefixes %v: Hashes = %v, want %v", text, ask, gotH, wantH)
			}
			for x := range wantH {
				if !gotH[x] {
					t.Fatalf("list %q prefixes %v: hash %s missing", text, ask, x)
				}
			}
		}
	})
	t.Logf("storage: %d lists of up to %d lines", n, depth)
}

// wantSubdomains reads the property directly: the host itself and its parent
// domains with at most four labels, excluding the public suffix and anything
// above it.
func wantSubdomains(host string) []string {
	labels := strings.Split(host, ".")
	suf, icann := publicsuffix.PublicSuffix(host)
	sufLabels := 0
	if icann {
		sufLabels = len(strings.Split(suf, "."))
	}
	var out []string
	for k := min(4, len(labels)); k >= 1; k-- {
		if k <= sufLabels {
			break
		}
		out = append(out, strings.Join(labels[len(labels)-k:], "."))
	}
	return out
}

func boundedSubdomains(t *testing.T) {
	tlds := [][]string{{"com"}, {"co", "uk"}, {"example"}, {"blogspot", "com"}}
	depth := boundedDepth(5, 7)
	n := 0
	for _, tld := range tlds {
		sequences([]string{"a", "b", "www"}, depth, func(seq []string) {
			host := strings.Join(append(slices.Clone(seq), tld...), ".")
			n++
			got := hashableSubdomains(host)
			want := wantSubdomains(host)
			if !slices.Equal(got, want) {
				t.Fatalf("hashableSubdomains(%q) = %q, want %q", host, got, want)
			}
		})
	}
	t.Logf("subdomains: %d hosts of up to %d labels below the suffix", n, depth)
}

func boundedPrefixes(t *testing.T) {
	labels := []string{"0123", "abcd", "0123abcd", "abcdef01", "012", "01234", "zzzz", "0123zzzz", "zzzz0123", ""}
	depth := boundedDepth(3, 4)
	n := 0
	sequences(labels, depth, func(seq []string) {
		if len(seq) == 0 {
			return
		}
		n++
		str := strings.Join(seq, ".")
		got, err := prefixesFromStr(str)
		if str == "" {
			if err != nil || len(got) != 0 {
				t.Fatalf("prefixesFromStr(%q) = %v, %v", str, got, err)
			}
			return
		}
		wantErr := false
		want := map[Prefix]bool{}
		for _, l := range seq {
			if len(l) != 4 && len(l) != 8 {
				wantErr = true
				continue
			}
			var p Prefix
			if _, dErr := hex.Decode(p[:], []byte(l[:4])); dErr != nil {
				wantErr = true
				continue
			}
			want[p] = true
		}
		if wantErr != (err != nil) {
			t.Fatalf("prefixesFromStr(%q): err = %v, want an error: %v", str, err, wantErr)
		}
		if err != nil {
			return
		}
		gotSet := map[Prefix]bool{}
		for _, p := range got {
			gotSet[p] = true
		}
		if len(gotSet) != len(want) || len(got) != len(want) {
			t.Fatalf("prefixesFromStr(%q) = %v, want %v", str, got, want)
		}
		for p := range want {
			if !gotSet[p] {
				t.Fatalf("prefixesFromStr(%q) lacks %v", str, p)
			}
		}
	})
	t.Logf("prefixes: %d label sequences of up to %d labels", n, depth)
}

func boundedMatcher(t *testing.T) {
	hosts := []string{"a.example", "b.example", "c.a.example"}
	const suffix = ".sb.dns.adguard.com"
	strg, err := NewStorage(strings.Join(hosts, "\n"))
	if err != nil {
		t.Fatal(err)
	}
	m := NewMatcher(map[string]*Storage{suffix: strg})
	var labels []string
	for _, h := range append(slices.Clone(hosts), "d.example") {
		fh := fullHash(h)
		labels = append(labels, fh[:4], fh[:8], fh[4:8]+"0000")
	}
	depth := boundedDepth(2, 3)
	sequences(labels, depth, func(seq []string) {
		if len(seq) == 0 {
			return
		}
		q := strings.Join(seq, ".") + suffix
		got, matched, mErr := m.MatchByPrefix(context.Background(), q)
		if mErr != nil || !matched {
			t.Fatalf("MatchByPrefix(%q): %v, matched %v", q, mErr, matched)
		}
		want := map[string]bool{}
		for _, l := range seq {
			for _, h := range hosts {
				if strings.HasPrefix(fullHash(h), l[:4]) {
					want[fullHash(h)] = true
				}
			}
		}
		gotSet := map[string]bool{}
		for _, x := range got {
			gotSet[x] = true
		}
		var w, g []string
		for x := range want {
			w = append(w, x)
		}
		for x := range gotSet {
			g = append(g, x)
		}
		sort.Strings(w)
		sort.Strings(g)
		if !slices.Equal(w, g) {
			t.Fatalf("MatchByPrefix(%q) = %v, want %v", q, g, w)
		}
	})
	if _, matched, _ := m.MatchByPrefix(context.Background(), "0123.example.org"); matched {
		t.Fatal("a name outside the suffixes matched")
	}
}

package main

// Contract-file parser.  Contracts are `//@` comment lines in comment-only Go
// files (zz_contracts_verif.go, build tag verif) next to the code in /repo, and
// in /verif/contracts/ext/*.spec for dependencies (assumed).

import (
	"fmt"
	"os"
	"path/filepath"
	"regexp"
	"sort"
	"strconv"
	"strings"
)

type Clause struct {
	Label string
	Expr  *SExpr
	Src   string
	File  string
	Line  int
}

type LoopSpec struct {
	Invariants []*Clause
	ModifiesNo bool
	// Staged: the preservation of invariant k is proved from invariants 1..k
	// only (fewer hypotheses - sound); lets a quantifier-heavy invariant be
	// put last so that it does not disturb the proofs of the others.
	Staged bool
}

type FuncSpec struct {
	Key       string
	Pkg       string // package path whose scope resolves names
	Requires  []*Clause
	Ensures   []*Clause
	Modifies  []*Clause
	ModAll    bool
	ModHeap   bool // every non-ghost storage may change; ghost state only as listed
	HasMod    bool
	Loops     map[int]*LoopSpec
	Assumes   []*Clause
	Assumed   bool // contract on a dependency: not verified
	Inline    bool
	Pure      bool
	MayPanic  bool
	NoSafety  map[string]bool // safety kinds not generated (listed as assumptions)
	Params    []string        // optional explicit parameter names (receiver first)
	Results   []string        // optional explicit result names
	Lets      []*LetSpec
	File      string
	Line      int
	Imports   map[string]string
	Notes     []string
	Props     []string
	SelfComp  []string // self-composition: result fields that must not depend on pooled pre-state
	LockHeld  []string
	Iface     string // for interface method contracts: full interface type name
	Method    string
	Transparent bool
	View        bool // assumed view of another package's function, used for calls from Pkg only
	GhostSets []*GhostSet
	Rely      []*Clause // assumed after every lock acquisition: what other goroutines leave alone (ownership)
	usesLocked int
	NilRecv   bool     // the receiver may be nil (no implicit non-nil assumption)
	Spawns    []string // parameters holding functions that run later: their precondition is checked at the call
	AtCalls   []*AtCall // assertions over the caller's locals right before a call
	NeedsLock bool      // the operation adds to lock-protected ghost state: callers must hold a protecting lock
	Preserves []*Clause // with `modifies heap`: whole storages that are nevertheless left alone
}

// AtCall is `atcall <callee> assert <clause>`: an assertion checked in the
// state right before every call of a function or method whose name ends with
// Callee, with the caller's source-level locals in scope.
type AtCall struct {
	Callee string
	Clause *Clause
	Assume bool
	Set    *GhostSet // `atcall <callee> set ghost = expr`: ghost assignment right before the call
}

// GhostSet is a ghost assignment executed at every return of the function
// (ghost code at the end of the body; callers see it through ensures).
type GhostSet struct {
	Target *SExpr
	Value  *SExpr
	Src    string
	File   string
	Line   int
}

type LetSpec struct {
	Name string
	Expr *SExpr
	Old  bool
}

type PredSpec struct {
	Triggered bool // fpred: a named function of the storages it reads, with a definitional axiom (usable as a trigger)
	Name    string
	Params  []Binder
	Body    *SExpr
	Pkg     string
	Imports map[string]string
	File    string
	Line    int
}

type FunSpec struct {
	Name    string
	Params  []Binder
	Result  *TypeExpr
	Pkg     string
	Imports map[string]string
}

type GhostSpec struct {
	Name    string
	Type    *TypeExpr
	Pkg     string
	Imports map[string]string
}

type LockSpec struct {
	TypeKey   string // full named type of the root object, e.g. pkg.limitListener
	Path      []string
	Protects  []*Clause
	Invariant []*Clause
	Pkg       string
	Imports   map[string]string
	File      string
	Line      int
}

type LemmaSpec struct {
	Name     string
	Binders  []Binder
	Requires []*Clause
	Ensures  []*Clause
	Pkg      string
	Imports  map[string]string
	File     string
	Line     int
	Props    []string
}

type AxiomSpec struct {
	Name    string
	Expr    *SExpr
	Pkg     string
	Imports map[string]string
	File    string
	Line    int
}

// specUsesIdx: some contract uses the index marker idx(j) in a trigger; the
// executor then marks every slice index it evaluates (see markIndex).
var specUsesIdx bool

type SpecDB struct {
	Funcs   map[string]*FuncSpec
	Views   map[string]*FuncSpec // "<viewing pkg>|<func key>": a client package's assumed view
	Ifaces  map[string]*FuncSpec // key: ifaceType + "." + method
	Preds   map[string]*PredSpec
	Funs    map[string]*FunSpec
	Ghosts  map[string]*GhostSpec
	Locks   []*LockSpec
	Lemmas  []*LemmaSpec
	Axioms  []*AxiomSpec
	Opaque  map[string]bool // struct types forced opaque
	Files   []string
	FieldCalls map[string]string // "pkg.Type.field" -> function key called through the field
	NonNilGlobalPkgs map[string]bool
	Immutable []*ImmutableSpec
}

// ImmutableSpec declares fields that are written only while their object is
// being constructed (final fields): no call can change them afterwards.
type ImmutableSpec struct {
	Expr    *SExpr
	Src     string
	Pkg     string
	Imports map[string]string
	File    string
	Line    int
}

func newSpecDB() *SpecDB {
	return &SpecDB{
		Funcs: map[string]*FuncSpec{}, Views: map[string]*FuncSpec{}, Ifaces: map[string]*FuncSpec{}, Preds: map[string]*PredSpec{},
		Funs: map[string]*FunSpec{}, Ghosts: map[string]*GhostSpec{}, Opaque: map[string]bool{},
		FieldCalls: map[string]string{}, NonNilGlobalPkgs: map[string]bool{},
	}
}

var topKeywords = map[string]bool{
	"pred": true, "fpred": true, "fun": true, "ghost": true, "lock": true, "func": true, "interface": true,
	"lemma": true, "pure": true, "axiom": true, "import": true, "ext": true, "opaque": true, "field": true,
	"nonnil-globals": true, "immutable": true,
}

var subKeywords = map[string]bool{
	"requires": true, "ensures": true, "modifies": true, "loop": true, "protects": true,
	"invariant": true, "assume": true, "inline": true, "maypanic": true, "nosafety": true,
	"atcall": true, "preserves": true, "needslock": true, "params": true, "results": true, "let": true, "letold": true, "forall": true, "note": true, "property": true,
	"selfcomp": true, "held": true, "transparent": true, "ghostset": true, "spawns": true, "nilrecv": true, "rely": true,
}

type rawDirective struct {
	kw   string
	text string
	line int
}

// extractDirectives pulls the //@ lines out of a file and joins continuation
// lines (a line whose first word is not a keyword continues the previous one).
func extractDirectives(path string) ([]rawDirective, string, error) {
	data, err := os.ReadFile(path)
	if err != nil {
		return nil, "", err
	}
	var out []rawDirective
	pkgName := ""
	isSpecFile := strings.HasSuffix(path, ".spec")
	for i, line := range strings.Split(string(data), "\n") {
		trim := strings.TrimSpace(line)
		if strings.HasPrefix(trim, "package ") && pkgName == "" {
			pkgName = strings.TrimSpace(strings.TrimPrefix(trim, "package "))
			continue
		}
		var body string
		if strings.HasPrefix(trim, "//@") {
			body = strings.TrimPrefix(trim, "//@")
		} else if isSpecFile && trim != "" && !strings.HasPrefix(trim, "#") && !strings.HasPrefix(trim, "//") {
			body = trim
		} else {
			continue
		}
		body = strings.TrimSpace(body)
		if body == "" {
			continue
		}
		first := body
		if j := strings.IndexAny(body, " \t"); j >= 0 {
			first = body[:j]
		}
		if topKeywords[first] || subKeywords[first] {
			out = append(out, rawDirective{kw: first, text: strings.TrimSpace(body[len(first):]), line: i + 1})
			if strings.Contains(body, "idx(") {
				specUsesIdx = true
			}
		} else {
			if len(out) == 0 {
				return nil, "", fmt.Errorf("%s:%d: continuation line without a directive", path, i+1)
			}
			out[len(out)-1].text += " " + body
		}
	}
	return out, pkgName, nil
}

var labelRe = regexp.MustCompile(`^([A-Za-z_][A-Za-z0-9_\-]*)\s*:([^:].*)$`)

func parseClause(text, file string, line int) (*Clause, error) {
	label := ""
	if m := labelRe.FindStringSubmatch(text); m != nil {
		label = m[1]
		text = strings.TrimSpace(m[2])
	}
	e, err := parseSpecExpr(text)
	if err != nil {
		return nil, fmt.Errorf("%s:%d: %v", file, line, err)
	}
	return &Clause{Label: label, Expr: e, Src: text, File: file, Line: line}, nil
}

func parseBinders(s string) ([]Binder, error) {
	s = strings.TrimSpace(s)
	if s == "" {
		return nil, nil
	}
	var out []Binder
	for _, part := range splitTopLevel(s, ',') {
		part = strings.TrimSpace(part)
		j := strings.IndexAny(part, " \t")
		if j < 0 {
			return nil, fmt.Errorf("binder %q needs a type", part)
		}
		ty, err := parseTypeExprString(strings.TrimSpace(part[j:]))
		if err != nil {
			return nil, err
		}
		out = append(out, Binder{Name: part[:j], Type: ty})
	}
	return out, nil
}

func splitTopLevel(s string, sep byte) []string {
	var out []string
	depth := 0
	start := 0
	for i := 0; i < len(s); i++ {
		switch s[i] {
		case '(', '[':
			depth++
		case ')', ']':
			depth--
		default:
			if s[i] == sep && depth == 0 {
				out = append(out, s[start:i])
				start = i + 1
			}
		}
	}
	out = append(out, s[start:])
	return out
}

// expandFuncKey turns a contract-file function name into the go/ssa function
// string.
var typeArgAliasRe = regexp.MustCompile(`[A-Za-z_][A-Za-z0-9_]*\.[A-Za-z_][A-Za-z0-9_]*`)

func expandFuncKey(name, pkgPath string, imports map[string]string) string {
	name = strings.TrimSpace(name)
	qual := func(t string) string {
		// t is like "counter", "dns.Msg", "container.RingBuffer[int64]".
		base := t
		suffix := ""
		if j := strings.Index(t, "["); j >= 0 {
			base, suffix = t[:j], t[j:]
			// package aliases inside the type arguments: Pool[dns.Msg]
			suffix = typeArgAliasRe.ReplaceAllStringFunc(suffix, func(m string) string {
				k := strings.Index(m, ".")
				if p, ok := imports[m[:k]]; ok {
					return p + m[k:]
				}
				return m
			})
		}
		if j := strings.Index(base, "."); j >= 0 {
			alias := base[:j]
			if p, ok := imports[alias]; ok {
				return p + "." + base[j+1:] + suffix
			}
			return base + suffix
		}
		return pkgPath + "." + base + suffix
	}
	if strings.HasPrefix(name, "(") {
		j := strings.Index(name, ")")
		recv := name[1:j]
		rest := name[j+1:]
		if strings.HasPrefix(recv, "*") {
			return "(*" + qual(recv[1:]) + ")" + rest
		}
		return "(" + qual(recv) + ")" + rest
	}
	// package-level function, maybe qualified
	base := name
	suffix := ""
	if j := strings.IndexAny(name, "[$"); j >= 0 {
		base, suffix = name[:j], name[j:]
	}
	if j := strings.Index(base, "."); j >= 0 {
		alias := base[:j]
		if p, ok := imports[alias]; ok {
			return p + "." + base[j+1:] + suffix
		}
		return name
	}
	return pkgPath + "." + name
}

func expandTypeKey(name, pkgPath string, imports map[string]string) string {
	name = strings.TrimPrefix(strings.TrimSpace(name), "*")
	if pkgPath == "" && !strings.Contains(name, ".") {
		return name
	}
	if j := strings.Index(name, "."); j >= 0 {
		if p, ok := imports[name[:j]]; ok {
			return p + "." + name[j+1:]
		}
		return name
	}
	return pkgPath + "." + name
}

// loadSpecFile parses one contract file.  pkgPath is the import path of the
// package the file belongs to ("" for ext files, which must qualify names).
func (db *SpecDB) loadSpecFile(path, pkgPath string, assumed bool) error {
	dirs, _, err := extractDirectives(path)
	if err != nil {
		return err
	}
	db.Files = append(db.Files, path)
	imports := map[string]string{}
	var curFunc *FuncSpec
	var curLock *LockSpec
	var curLemma *LemmaSpec
	reset := func() { curFunc, curLock, curLemma = nil, nil, nil }
	for _, d := range dirs {
		where := fmt.Sprintf("%s:%d", path, d.line)
		switch d.kw {
		case "import":
			f := strings.Fields(d.text)
			if len(f) != 2 {
				return fmt.Errorf("%s: import needs alias and path", where)
			}
			imports[f[0]] = f[1]
		case "opaque":
			db.Opaque[expandTypeKey(d.text, pkgPath, imports)] = true
		case "immutable":
			for _, part := range splitTopLevel(d.text, ',') {
				e, err := parseSpecExpr(strings.TrimSpace(part))
				if err != nil {
					return fmt.Errorf("%s: %v", where, err)
				}
				db.Immutable = append(db.Immutable, &ImmutableSpec{Expr: e, Src: strings.TrimSpace(part), Pkg: pkgPath, Imports: imports, File: path, Line: d.line})
			}
		case "nonnil-globals":
			db.NonNilGlobalPkgs[strings.TrimSpace(d.text)] = true
		case "field":
			// field T.f calls <funckey>
			f := strings.Fields(d.text)
			if len(f) != 5 || f[1] != "calls" || f[3] != "via" {
				return fmt.Errorf("%s: field directive: field T.f calls <func> via <ghostmap>", where)
			}
			j := strings.LastIndex(f[0], ".")
			db.FieldCalls[expandTypeKey(f[0][:j], pkgPath, imports)+"."+f[0][j+1:]] = expandFuncKey(f[2], pkgPath, imports) + "\x00" + f[4]
		case "pred", "fpred":
			reset()
			// pred Name(params) = body
			j := strings.Index(d.text, "(")
			k := matchParen(d.text, j)
			if j < 0 || k < 0 {
				return fmt.Errorf("%s: malformed pred", where)
			}
			bs, err := parseBinders(d.text[j+1 : k])
			if err != nil {
				return fmt.Errorf("%s: %v", where, err)
			}
			rest := strings.TrimSpace(d.text[k+1:])
			if !strings.HasPrefix(rest, "=") {
				return fmt.Errorf("%s: pred needs '= body'", where)
			}
			body, err := parseSpecExpr(strings.TrimSpace(rest[1:]))
			if err != nil {
				return fmt.Errorf("%s: %v", where, err)
			}
			name := strings.TrimSpace(d.text[:j])
			if prev, dup := db.Preds[name]; dup && (prev.File != path || prev.Line != d.line) {
				return fmt.Errorf("%s: predicate %s is already defined at %s:%d (predicate names are global to a load)", where, name, prev.File, prev.Line)
			}
			db.Preds[name] = &PredSpec{Name: name, Params: bs, Body: body, Pkg: pkgPath, Imports: imports, File: path, Line: d.line, Triggered: d.kw == "fpred"}
		case "fun":
			reset()
			j := strings.Index(d.text, "(")
			k := matchParen(d.text, j)
			if j < 0 || k < 0 {
				return fmt.Errorf("%s: malformed fun", where)
			}
			bs, err := parseBinders(d.text[j+1 : k])
			if err != nil {
				return fmt.Errorf("%s: %v", where, err)
			}
			rt, err := parseTypeExprString(strings.TrimSpace(d.text[k+1:]))
			if err != nil {
				return fmt.Errorf("%s: %v", where, err)
			}
			name := strings.TrimSpace(d.text[:j])
			db.Funs[name] = &FunSpec{Name: name, Params: bs, Result: rt, Pkg: pkgPath, Imports: imports}
		case "ghost":
			reset()
			j := strings.IndexAny(d.text, " \t")
			if j < 0 {
				return fmt.Errorf("%s: ghost needs name and type", where)
			}
			ty, err := parseTypeExprString(strings.TrimSpace(d.text[j:]))
			if err != nil {
				return fmt.Errorf("%s: %v", where, err)
			}
			db.Ghosts[d.text[:j]] = &GhostSpec{Name: d.text[:j], Type: ty, Pkg: pkgPath, Imports: imports}
		case "axiom":
			reset()
			cl, err := parseClause(d.text, path, d.line)
			if err != nil {
				return err
			}
			db.Axioms = append(db.Axioms, &AxiomSpec{Name: cl.Label, Expr: cl.Expr, Pkg: pkgPath, Imports: imports, File: path, Line: d.line})
		case "lock":
			reset()
			// lock TypeName self.path.to.lock
			f := strings.Fields(d.text)
			if len(f) != 2 || !strings.HasPrefix(f[1], "self.") {
				return fmt.Errorf("%s: lock directive: lock <Type> self.<path>", where)
			}
			curLock = &LockSpec{TypeKey: expandTypeKey(f[0], pkgPath, imports), Path: strings.Split(f[1], ".")[1:], Pkg: pkgPath, Imports: imports, File: path, Line: d.line}
			db.Locks = append(db.Locks, curLock)
		case "lemma":
			reset()
			curLemma = &LemmaSpec{Name: strings.TrimSpace(d.text), Pkg: pkgPath, Imports: imports, File: path, Line: d.line}
			db.Lemmas = append(db.Lemmas, curLemma)
		case "pure":
			reset()
			key := expandFuncKey(d.text, pkgPath, imports)
			if prev, dup := db.Funcs[key]; dup && prev.Pkg != pkgPath && strings.Contains(prev.File, "zz_contracts_verif.go") {
				// a package's own view of this dependency function was loaded first
				prev.Assumed, prev.View = true, true
				db.Views[prev.Pkg+"|"+key] = prev
			}
			db.Funcs[key] = &FuncSpec{Key: key, Pkg: pkgPath, Pure: true, Assumed: true, HasMod: true, Loops: map[int]*LoopSpec{}, File: path, Line: d.line, Imports: imports}
		case "func", "ext":
			reset()
			key := expandFuncKey(d.text, pkgPath, imports)
			curFunc = &FuncSpec{Key: key, Pkg: pkgPath, Assumed: assumed || d.kw == "ext", Loops: map[int]*LoopSpec{}, File: path, Line: d.line, Imports: imports, NoSafety: map[string]bool{}}
			if old, dup := db.Funcs[key]; dup {
				// A package may state its own assumed view of a function
				// that has a (verified) contract in its home package: the
				// view is used for calls made from the viewing package only.
				home := func(fs *FuncSpec) bool {
					if strings.Contains(fs.File, "/contracts/ext/") {
						// the shared assumed contract of a dependency function
						return true
					}
					return fs.Pkg != "" && strings.Contains(key, fs.Pkg+".")
				}
				switch {
				case old.Pkg != curFunc.Pkg && home(old) && !home(curFunc):
					curFunc.Assumed, curFunc.View = true, true
					db.Views[curFunc.Pkg+"|"+key] = curFunc
				case old.Pkg != curFunc.Pkg && home(curFunc) && !home(old):
					old.Assumed, old.View = true, true
					db.Views[old.Pkg+"|"+key] = old
					db.Funcs[key] = curFunc
				case old.Pkg != curFunc.Pkg && !home(old) && !home(curFunc) && !strings.Contains(key, "AdguardTeam/AdGuardDNS"):
					// two packages each state their own view of a dependency
					// function: each view is used for calls from its package
					old.Assumed, old.View, curFunc.Assumed, curFunc.View = true, true, true, true
					db.Views[old.Pkg+"|"+key] = old
					db.Views[curFunc.Pkg+"|"+key] = curFunc
				default:
					return fmt.Errorf("%s: duplicate contract for %s (first at %s:%d)", where, key, old.File, old.Line)
				}
			} else {
				db.Funcs[key] = curFunc
			}
		case "interface":
			reset()
			// interface pkg.Type method Name
			f := strings.Fields(d.text)
			if len(f) != 3 || f[1] != "method" {
				return fmt.Errorf("%s: interface directive: interface <Type> method <Name>", where)
			}
			inst := ""
			if j := strings.Index(f[0], "<"); j >= 0 {
				inst = f[0][j:]
				f[0] = f[0][:j]
			}
			ik := expandTypeKey(f[0], pkgPath, imports) + inst
			curFunc = &FuncSpec{Key: ik + "." + f[2], Pkg: pkgPath, Assumed: true, Loops: map[int]*LoopSpec{}, File: path, Line: d.line, Imports: imports, Iface: ik, Method: f[2], NoSafety: map[string]bool{}}
			db.Ifaces[curFunc.Key] = curFunc
		default:
			// sub-keywords
			switch {
			case curFunc != nil:
				if err := parseFuncSub(curFunc, d, path); err != nil {
					return err
				}
			case curLock != nil:
				switch d.kw {
				case "protects":
					for _, p := range splitTopLevel(d.text, ',') {
						cl, err := parseClause(strings.TrimSpace(p), path, d.line)
						if err != nil {
							return err
						}
						curLock.Protects = append(curLock.Protects, cl)
					}
				case "invariant":
					cl, err := parseClause(d.text, path, d.line)
					if err != nil {
						return err
					}
					curLock.Invariant = append(curLock.Invariant, cl)
				default:
					return fmt.Errorf("%s: %q not allowed in lock", where, d.kw)
				}
			case curLemma != nil:
				switch d.kw {
				case "forall":
					bs, err := parseBinders(d.text)
					if err != nil {
						return fmt.Errorf("%s: %v", where, err)
					}
					curLemma.Binders = append(curLemma.Binders, bs...)
				case "requires", "ensures":
					cl, err := parseClause(d.text, path, d.line)
					if err != nil {
						return err
					}
					if d.kw == "requires" {
						curLemma.Requires = append(curLemma.Requires, cl)
					} else {
						curLemma.Ensures = append(curLemma.Ensures, cl)
					}
				case "property":
					curLemma.Props = append(curLemma.Props, strings.Fields(d.text)...)
				default:
					return fmt.Errorf("%s: %q not allowed in lemma", where, d.kw)
				}
			default:
				return fmt.Errorf("%s: %q outside of a func/lock/lemma block", where, d.kw)
			}
		}
	}
	return nil
}

func matchParen(s string, open int) int {
	if open < 0 {
		return -1
	}
	depth := 0
	for i := open; i < len(s); i++ {
		switch s[i] {
		case '(':
			depth++
		case ')':
			depth--
			if depth == 0 {
				return i
			}
		}
	}
	return -1
}

func parseFuncSub(fs *FuncSpec, d rawDirective, path string) error {
	where := fmt.Sprintf("%s:%d", path, d.line)
	switch d.kw {
	case "requires", "ensures", "assume":
		cl, err := parseClause(d.text, path, d.line)
		if err != nil {
			return err
		}
		switch d.kw {
		case "requires":
			fs.Requires = append(fs.Requires, cl)
		case "ensures":
			fs.Ensures = append(fs.Ensures, cl)
		case "assume":
			fs.Assumes = append(fs.Assumes, cl)
		}
	case "modifies":
		fs.HasMod = true
		for _, p := range splitTopLevel(d.text, ',') {
			p = strings.TrimSpace(p)
			if p == "*" {
				fs.ModAll = true
				continue
			}
			if p == "heap" {
				fs.ModHeap = true
				continue
			}
			if p == "" || p == "nothing" {
				continue
			}
			cl, err := parseClause(p, path, d.line)
			if err != nil {
				return err
			}
			fs.Modifies = append(fs.Modifies, cl)
		}
	case "loop":
		f := strings.Fields(d.text)
		if len(f) == 2 && f[1] == "staged" {
			n, err := strconv.Atoi(f[0])
			if err != nil {
				return fmt.Errorf("%s: loop ordinal: %v", where, err)
			}
			if fs.Loops[n] == nil {
				fs.Loops[n] = &LoopSpec{}
			}
			fs.Loops[n].Staged = true
			break
		}
		if len(f) < 3 {
			return fmt.Errorf("%s: loop <n> invariant <expr>", where)
		}
		n, err := strconv.Atoi(f[0])
		if err != nil {
			return fmt.Errorf("%s: loop ordinal: %v", where, err)
		}
		ls := fs.Loops[n]
		if ls == nil {
			ls = &LoopSpec{}
			fs.Loops[n] = ls
		}
		rest := strings.TrimSpace(strings.TrimPrefix(strings.TrimSpace(d.text), f[0]))
		switch f[1] {
		case "invariant":
			cl, err := parseClause(strings.TrimSpace(strings.TrimPrefix(rest, "invariant")), path, d.line)
			if err != nil {
				return err
			}
			ls.Invariants = append(ls.Invariants, cl)
		default:
			return fmt.Errorf("%s: unknown loop clause %q", where, f[1])
		}
	case "inline":
		fs.Inline = true
	case "transparent":
		fs.Transparent = true
	case "maypanic":
		fs.MayPanic = true
	case "nosafety":
		for _, k := range strings.Fields(d.text) {
			fs.NoSafety[k] = true
		}
	case "params":
		for _, p := range strings.Split(d.text, ",") {
			fs.Params = append(fs.Params, strings.TrimSpace(p))
		}
	case "results":
		for _, p := range strings.Split(d.text, ",") {
			fs.Results = append(fs.Results, strings.TrimSpace(p))
		}
	case "let", "letold":
		j := strings.Index(d.text, "=")
		if j < 0 {
			return fmt.Errorf("%s: let name = expr", where)
		}
		e, err := parseSpecExpr(strings.TrimSpace(d.text[j+1:]))
		if err != nil {
			return fmt.Errorf("%s: %v", where, err)
		}
		fs.Lets = append(fs.Lets, &LetSpec{Name: strings.TrimSpace(d.text[:j]), Expr: e, Old: d.kw == "letold"})
	case "note":
		fs.Notes = append(fs.Notes, d.text)
	case "property":
		fs.Props = append(fs.Props, strings.Fields(d.text)...)
	case "selfcomp":
		for _, p := range strings.Split(d.text, ",") {
			fs.SelfComp = append(fs.SelfComp, strings.TrimSpace(p))
		}
	case "held":
		fs.LockHeld = append(fs.LockHeld, strings.TrimSpace(d.text))
	case "atcall":
		f := strings.Fields(d.text)
		if len(f) < 3 || (f[1] != "assert" && f[1] != "assume" && f[1] != "set") {
			return fmt.Errorf("%s: atcall <callee> assert|assume <clause> / set ghost = expr", where)
		}
		rest := strings.TrimSpace(strings.TrimPrefix(strings.TrimSpace(d.text), f[0]))
		rest = strings.TrimSpace(strings.TrimPrefix(rest, f[1]))
		if f[1] == "set" {
			j := strings.Index(rest, "=")
			if j < 0 {
				return fmt.Errorf("%s: atcall <callee> set ghost = expr", where)
			}
			te, err := parseSpecExpr(strings.TrimSpace(rest[:j]))
			if err != nil {
				return fmt.Errorf("%s: %v", where, err)
			}
			ve, err := parseSpecExpr(strings.TrimSpace(rest[j+1:]))
			if err != nil {
				return fmt.Errorf("%s: %v", where, err)
			}
			fs.AtCalls = append(fs.AtCalls, &AtCall{Callee: f[0], Set: &GhostSet{Target: te, Value: ve, Src: rest, File: path, Line: d.line}})
			break
		}
		cl, err := parseClause(rest, path, d.line)
		if err != nil {
			return err
		}
		fs.AtCalls = append(fs.AtCalls, &AtCall{Callee: f[0], Clause: cl, Assume: f[1] == "assume"})
	case "preserves":
		for _, p := range splitTopLevel(d.text, ',') {
			p = strings.TrimSpace(p)
			if p == "" {
				continue
			}
			cl, err := parseClause(p, path, d.line)
			if err != nil {
				return err
			}
			fs.Preserves = append(fs.Preserves, cl)
		}
	case "needslock":
		fs.NeedsLock = true
	case "nilrecv":
		fs.NilRecv = true
	case "rely":
		cl, err := parseClause(d.text, path, d.line)
		if err != nil {
			return err
		}
		fs.Rely = append(fs.Rely, cl)
	case "spawns":
		for _, p := range strings.Split(d.text, ",") {
			fs.Spawns = append(fs.Spawns, strings.TrimSpace(p))
		}
	case "ghostset":
		j := strings.Index(d.text, "=")
		if j < 0 {
			return fmt.Errorf("%s: ghostset target = expr", where)
		}
		te, err := parseSpecExpr(strings.TrimSpace(d.text[:j]))
		if err != nil {
			return fmt.Errorf("%s: %v", where, err)
		}
		ve, err := parseSpecExpr(strings.TrimSpace(d.text[j+1:]))
		if err != nil {
			return fmt.Errorf("%s: %v", where, err)
		}
		fs.GhostSets = append(fs.GhostSets, &GhostSet{Target: te, Value: ve, Src: d.text, File: path, Line: d.line})
	default:
		return fmt.Errorf("%s: %q not allowed in func", where, d.kw)
	}
	return nil
}

// loadSpecDir loads every *.spec under dir (assumed contracts).
func (db *SpecDB) loadSpecDir(dir string, assumed bool) error {
	ents, err := filepath.Glob(filepath.Join(dir, "*.spec"))
	if err != nil {
		return err
	}
	sort.Strings(ents)
	for _, p := range ents {
		if err := db.loadSpecFile(p, "", assumed); err != nil {
			return err
		}
	}
	return nil
}

// loadSpecDirVerified loads contracts for dependency functions whose bodies
// are verified like repository code.
func (db *SpecDB) loadSpecDirVerified(dir string) error {
	return db.loadSpecDir(dir, false)
}

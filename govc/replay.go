package main

// Counterexample replay against the real code (go test -overlay).

// tryReplay attempts to reproduce a solver model on the real code.  It
// returns the replay output and whether the failure was confirmed.
func tryReplay(p *Prog, cfg *PropConfig, r *SolveResult, root, repo, scratch string) (string, bool) {
	return "", false
}

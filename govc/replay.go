package main

// Counterexample replay against the real code: an in-package Go test that
// states the property-level oracle is injected with `go test -overlay` (the
// repository is not written) and fed the solver's model through GOVC_MODEL.

import (
	"bytes"
	"context"
	"encoding/json"
	"fmt"
	"os"
	"os/exec"
	"path/filepath"
	"regexp"
	"strings"
	"time"
)

type ReplaySpec struct {
	Match string `json:"match"` // prefix of the obligation name
	Pkg   string `json:"pkg"`   // package directory relative to the repository
	File  string `json:"file"`  // test file relative to /verif
	Test  string `json:"test"`  // test function
}

var valueRe = regexp.MustCompile(`\(\s*([^\s()]+)\s+(\(- [0-9.]+\)|[^\s()]+|\(/ [0-9.]+ [0-9.]+\)|\(- \(/ [0-9.]+ [0-9.]+\)\))\s*\)`)

// modelValues extracts scalar values from a (get-value ...) answer or from
// (define-fun name () Sort value) lines of a model.
func modelValues(out string) map[string]string {
	vals := map[string]string{}
	defRe := regexp.MustCompile(`\(define-fun\s+(\S+)\s+\(\)\s+(Int|Bool|Real)\s+(\(- [0-9.]+\)|[^\s()]+|\(/ [0-9.]+ [0-9.]+\))\)`)
	flat := strings.Join(strings.Fields(out), " ")
	for _, m := range defRe.FindAllStringSubmatch(flat, -1) {
		vals[m[1]] = normNum(m[3])
	}
	return vals
}

func normNum(s string) string {
	s = strings.TrimSpace(s)
	if strings.HasPrefix(s, "(- ") {
		return "-" + strings.TrimSuffix(strings.TrimPrefix(s, "(- "), ")")
	}
	return s
}

func runReplayTest(repo, root, scratch string, rs ReplaySpec, model map[string]string) (string, bool, error) {
	moduleDir := repo
	pkg := "./" + rs.Pkg
	if strings.HasPrefix(rs.Pkg, "internal/dnsserver") {
		moduleDir = filepath.Join(repo, "internal/dnsserver")
		rel := strings.TrimPrefix(strings.TrimPrefix(rs.Pkg, "internal/dnsserver"), "/")
		pkg = "./" + rel
	}
	ov := map[string]map[string]string{"Replace": {
		filepath.Join(repo, rs.Pkg, "zz_govc_replay_test.go"): filepath.Join(root, rs.File),
	}}
	ovData, _ := json.Marshal(ov)
	ovFile := filepath.Join(scratch, "overlay-"+sanitizeFile(rs.Test)+".json")
	if err := os.WriteFile(ovFile, ovData, 0o644); err != nil {
		return "", false, err
	}
	mj, _ := json.Marshal(model)
	ctx, cancel := context.WithTimeout(context.Background(), 180*time.Second)
	defer cancel()
	cmd := exec.CommandContext(ctx, "go", "test", "-overlay", ovFile, "-vet=off", "-count=1", "-timeout", "60s", "-run", "^"+rs.Test+"$", pkg)
	cmd.Dir = moduleDir
	cmd.Env = append(os.Environ(), "GOFLAGS=", "GOPROXY=off", "GOSUMDB=off", "GOTOOLCHAIN=local",
		"GOWORK="+filepath.Join(scratch, "go.work"), "GOVC_MODEL="+string(mj))
	var buf bytes.Buffer
	cmd.Stdout, cmd.Stderr = &buf, &buf
	err := cmd.Run()
	out := buf.String()
	if err == nil {
		return out, false, nil
	}
	if strings.Contains(out, "--- FAIL") || strings.Contains(out, "panic:") {
		return out, true, nil
	}
	return out, false, fmt.Errorf("replay could not be built or run: %v", err)
}

// tryReplay attempts to reproduce a failed obligation on the real code.  It
// returns the replay output and whether the failure was confirmed.
func tryReplay(p *Prog, cfg *PropConfig, r *SolveResult, root, repo, scratch string) (string, bool) {
	for _, rs := range cfg.Replays {
		if !strings.HasPrefix(r.Obl.Name, rs.Match) {
			continue
		}
		if r.Values == "" && r.Status == "sat" {
			evalScalars(r)
		}
		model := valueMap(r.Values)
		out, failed, err := runReplayTest(repo, root, scratch, rs, model)
		hdr := fmt.Sprintf("replay test %s (%s, package %s), model passed through GOVC_MODEL\n", rs.Test, rs.File, rs.Pkg)
		if err != nil {
			return hdr + "replay error: " + err.Error() + "\n" + truncate(out, 3000), false
		}
		if failed {
			return hdr + "the property-level oracle FAILS on the real code with this input:\n" + truncate(out, 4000), true
		}
		return hdr + "the oracle passes on the real code with this input (model not reproduced)\n" + truncate(out, 1000), false
	}
	return "", false
}

// valueMap parses a (get-value ...) answer into name -> value.
func valueMap(out string) map[string]string {
	vals := map[string]string{}
	re := regexp.MustCompile(`\((\S+) (\(- [0-9.]+\)|true|false|[0-9.]+|\(/ [0-9.]+ [0-9.]+\)|\(- \(/ [0-9.]+ [0-9.]+\)\))\)`)
	for _, m := range re.FindAllStringSubmatch(out, -1) {
		vals[m[1]] = normNum(m[2])
	}
	return vals
}

package main

// Core of the verification-condition generator: the SMT script under
// construction, symbolic state, locations, loads and stores, obligations.

import (
	"strconv"
	"fmt"
	"go/token"
	"go/types"
	"sort"
	"strings"

	"golang.org/x/tools/go/ssa"
)

// Obligation is one proof obligation: the script prefix up to PrefixLen plus
// the negated goal must be unsatisfiable.
type Obligation struct {
	Name      string
	Kind      string
	Func      string
	Goal      string // SMT Bool term that must be valid under the prefix
	PrefixLen int
	Pos       token.Position
	Desc      string
	Vacuity   bool // a cover: the goal is expected to be SATISFIABLE (reachability)
	ModelVars []string
	light     bool
	dropped   int
	Block     int        // block of the verified function in which the obligation arises (-1: none)
	Merges    [][]string // edge conditions of the merge points passed so far (for case splitting)
	Hyp       hypTag     // staged loop: drop head assumptions of this loop with a larger index
	vc        *VC
}

// hypTag marks the assumption of invariant idx (1-based) at the head of the
// staged loop numbered loop (0: none).
type hypTag struct{ loop, idx int }

// State maps storage names (heaps, locals, ghost variables) to the SMT term
// holding their current value.  A missing key means "entry value".
type State struct {
	sym   *symState // non-nil: storages are bound variables (definition of an fpred)
	m     map[string]string
	epoch string          // "" = entry; otherwise the id of the last havoc-everything
	held  map[string]bool // locks held on this path
}

func newState() *State { return &State{m: map[string]string{}, held: map[string]bool{}} }
func (s *State) clone() *State {
	n := newState()
	n.epoch = s.epoch
	for k, v := range s.held {
		n.held[k] = v
	}
	for k, v := range s.m {
		n.m[k] = v
	}
	return n
}

// Root kinds of a location.
const (
	RField = iota // field of a heap struct: heap[base]
	RElem         // element of a slice backing array: E[arr][idx]
	RCell         // pointer to a non-struct heap cell: C[ref]
	RLocal        // function-local variable
	RGlobal       // package-level variable
)

type PathElem struct {
	Field  string     // struct field name (with StructT the containing struct type)
	StruT  types.Type // struct type containing Field
	Index  string     // array index term (when Field == "")
	ElemT  types.Type // type reached after this projection
}

// Loc is an address known at translation time.
type Loc struct {
	Kind   int
	Heap   string     // storage name
	Base   string     // index into the heap (ref / arr id); "" for locals and globals
	Idx    string     // RElem: absolute index in the backing array
	RootT  types.Type // type of the value stored at the root
	Path   []PathElem
	LockID string // access path string for lock identification, if known
}

func (l *Loc) targetType() types.Type {
	if len(l.Path) == 0 {
		return l.RootT
	}
	return l.Path[len(l.Path)-1].ElemT
}

// Closure is a function value known at translation time.
type Closure struct {
	Fn       *ssa.Function
	Bindings []*Val
	Recv     *Val // bound method receiver
}

// Val is the translation of an SSA value or of a specification expression.
type Val struct {
	T     string // SMT term
	Ty    types.Type
	Loc   *Loc     // address known at translation time (pointer values)
	Clo   *Closure // function value known at translation time
	Tuple []*Val
	Path  string // auxiliary name (iterator storage)
	PRoot   *Val     // root of the access path (for lock identification)
	PFields []string // fields of the access path
	IsType bool  // spec: a type name
	TypeV types.Type
	DerefOf *Val // spec environment: the variable is what this pointer points to (address-taken local)
	WinArr, WinOff string // pointer made by a slice-to-array-pointer conversion: backing array and offset
}

type VC struct {
	curInstr ssa.Instruction // the instruction being executed (for pseudo-callee atcall sites)
	p        *Prog
	fnName   string
	out      []string
	declared map[string]bool
	macros   map[string]bool
	noEmit       int // >0: side facts are dropped (translating the body of an fpred)
	fpreds       map[string]*fpredDef
	fpredUses    []*PredSpec
	alias        map[string]string // symbol -> the symbol it is a copy of
	keepHeaps    map[string]bool // storages surviving the havoc in progress
	discHavocs   []havocRec      // whole-heap havocs seen by the loop discovery pass in progress
	preserveSelf map[string]bool // storages the function under verification promises to preserve
	declLog  []string
	arrElems map[string][]string // store chains built by arrChain (and their names) -> element terms
	obls     []*Obligation
	nfresh   int
	tags     map[string]int
	tagTypes map[int]types.Type
	ifaceAsserted map[string]types.Type // iface sort key -> interface type asserted against
	tagFactsDone  map[string]bool
	strLits  map[string]string
	strOrder []string
	st       *State // current state
	reach    string // current reachability condition (Bool term)
	entry    *State // entry state of the top-level function (old)
	used     *Usage
	errs     []string
	nameCount map[string]int
	top      *Frame
	modLocs  []ModLoc // frame of the function under verification
	modAll   bool
	modHeap  bool
	checkFrame bool
	discovery int
	inlineDepth int
	lenHint  map[string]int // SMT term of a slice -> its statically known length
	inlineStack []*ssa.Function
	heldOnEntry map[string]bool
	lockChecksOff bool
	nquant int
	discWrites map[string][]string // during loop discovery: storage -> index terms written
	lockedSt *State // state right after the latest lock acquisition (for locked(...))
	lineTags []int
	lineHyp  []hypTag // loop-head invariant assumptions of staged loops
	curHyp   hypTag
	hypLoops int
	globalFact bool
	ancestors map[int]map[int]bool
	nameSigOverride *types.Signature
	immutable map[string]bool
	merges [][]string
	pendingAxioms []string
	axiomDone map[int]bool
}

// Usage records what a verification run relied on (for the evidence).
type Usage struct {
	ExtContracts map[string]bool
	Pure         map[string]bool
	Inlined      map[string]bool
	Havocked     map[string]bool
	Assumes      map[string]bool
	IfaceSpecs   map[string]bool
	Builtins     map[string]bool
	Contracts    map[string]bool
}

func newUsage() *Usage {
	return &Usage{map[string]bool{}, map[string]bool{}, map[string]bool{}, map[string]bool{}, map[string]bool{}, map[string]bool{}, map[string]bool{}, map[string]bool{}}
}

const smtPrelude = `(set-option :produce-models true)
(set-logic ALL)
(declare-sort Str 0)
(declare-fun slen (Str) Int)
(declare-fun sat (Str Int) Int)
(declare-fun sconcat (Str Str) Str)
(declare-fun ssub (Str Int Int) Str)
(declare-fun sless (Str Str) Bool)
(declare-datatypes ((Slice 0)) (((mk_slice (s_arr Int) (s_off Int) (s_len Int) (s_cap Int)))))
(declare-datatypes ((Iface 0)) (((mk_iface (i_tag Int) (i_ref Int)))))
(declare-const alloc@0 Int)
(assert (>= alloc@0 1))
`

func newVC(p *Prog, fnName string) *VC {
	vc := &VC{
		p: p, fnName: fnName, declared: map[string]bool{}, tags: map[string]int{}, tagTypes: map[int]types.Type{},
		strLits: map[string]string{}, used: newUsage(), nameCount: map[string]int{},
		ifaceAsserted: map[string]types.Type{}, tagFactsDone: map[string]bool{}, lenHint: map[string]int{},
	}
	vc.push(smtPrelude)
	vc.st = newState()
	vc.st.m["alloc"] = "alloc@0"
	vc.entry = vc.st.clone()
	vc.reach = "true"
	return vc
}

func (vc *VC) emit(format string, args ...any) {
	vc.push(fmt.Sprintf(format, args...))
}

// push appends one top-level SMT command, tagged with the block of the
// function under verification in which it was produced (-1: always kept).
// Only assertions are ever sliced away; declarations and definitions stay.
func (vc *VC) push(line string) {
	if vc.noEmit > 0 && strings.HasPrefix(line, "(assert") {
		return
	}
	tag := -1
	if strings.HasPrefix(line, "(assert") && !vc.globalFact {
		tag = vc.curTag()
	}
	vc.out = append(vc.out, line)
	vc.lineTags = append(vc.lineTags, tag)
	if strings.HasPrefix(line, "(assert") {
		vc.lineHyp = append(vc.lineHyp, vc.curHyp)
	} else {
		vc.lineHyp = append(vc.lineHyp, hypTag{})
	}
}

func (vc *VC) curTag() int {
	if vc.top != nil && vc.top.curBlock != nil && vc.top.isTop {
		return vc.top.curBlock.Index
	}
	return -1
}

func (vc *VC) declare(name, decl string) {
	if vc.declared[name] {
		return
	}
	vc.declared[name] = true
	vc.declLog = append(vc.declLog, name)
	vc.push(decl)
}

func (vc *VC) errorf(format string, args ...any) {
	vc.errs = append(vc.errs, fmt.Sprintf(format, args...))
}

type checkpoint struct {
	outLen, oblLen, declLen, errLen, mergeLen int
}

func (vc *VC) checkpoint() checkpoint {
	return checkpoint{len(vc.out), len(vc.obls), len(vc.declLog), len(vc.errs), len(vc.merges)}
}

func (vc *VC) rollback(cp checkpoint) {
	vc.out = vc.out[:cp.outLen]
	vc.lineTags = vc.lineTags[:cp.outLen]
	vc.lineHyp = vc.lineHyp[:cp.outLen]
	vc.obls = vc.obls[:cp.oblLen]
	for _, n := range vc.declLog[cp.declLen:] {
		delete(vc.declared, n)
		if strings.HasPrefix(n, "axiom:") {
			if k, err := strconv.Atoi(strings.TrimPrefix(n, "axiom:")); err == nil {
				delete(vc.axiomDone, k)
			}
		}
		if strings.HasPrefix(n, "strlit:") {
			lit := strings.TrimPrefix(n, "strlit:")
			delete(vc.strLits, lit)
			for i, s := range vc.strOrder {
				if s == lit {
					vc.strOrder = append(vc.strOrder[:i], vc.strOrder[i+1:]...)
					break
				}
			}
		}
	}
	vc.declLog = vc.declLog[:cp.declLen]
	vc.errs = vc.errs[:cp.errLen]
	vc.merges = vc.merges[:cp.mergeLen]
}

// fresh declares a new constant of the given sort.
func (vc *VC) fresh(hint, sort string) string {
	vc.nfresh++
	name := fmt.Sprintf("%s!%d", sanitize(hint), vc.nfresh)
	vc.push(fmt.Sprintf("(declare-const %s %s)", name, sort))
	return name
}

// define introduces a named abbreviation for term.
func (vc *VC) define(hint, sort, term string) string {
	vc.nfresh++
	name := fmt.Sprintf("%s!%d", sanitize(hint), vc.nfresh)
	switch sort {
	case "Int", "Slice", "Iface", "Str":
		if !strings.ContainsAny(term, "( ") {
			// a plain copy of another symbol: remember it, so that two loads
			// of one variable are recognised as the same lock owner
			if vc.alias == nil {
				vc.alias = map[string]string{}
			}
			vc.alias[name] = vc.canon(term)
		}
		// atomic constants (not macros) keep index terms in the syntactic shape
		// that quantifier triggers need
		vc.push(fmt.Sprintf("(declare-const %s %s)", name, sort))
		vc.push(fmt.Sprintf("(assert (= %s %s))", name, term))
	default:
		vc.push(fmt.Sprintf("(define-fun %s () %s %s)", name, sort, term))
		if es, ok := vc.arrElems[term]; ok {
			vc.arrElems[name] = es
		}
		if vc.macros == nil {
			vc.macros = map[string]bool{}
		}
		vc.macros[name] = true
	}
	return name
}

// assume adds a fact that holds whenever the current point is reached.
func (vc *VC) assume(fact string) {
	if fact == "" || fact == "true" {
		return
	}
	if vc.reach == "true" {
		vc.emit("(assert %s)", fact)
	} else {
		vc.emit("(assert (=> %s %s))", vc.reach, fact)
	}
}

func (vc *VC) uniqueName(base string) string {
	vc.nameCount[base]++
	if vc.nameCount[base] == 1 {
		return base
	}
	return fmt.Sprintf("%s~%d", base, vc.nameCount[base])
}

// oblige records an obligation that goal holds whenever the current point is
// reached, and assumes it afterwards.
func (vc *VC) oblige(kind, label, goal string, pos token.Pos, desc string) {
	if goal == "true" {
		return
	}
	if vc.discovery > 0 {
		return
	}
	full := goal
	if vc.reach != "true" {
		full = fmt.Sprintf("(=> %s %s)", vc.reach, goal)
	}
	name := vc.uniqueName(fmt.Sprintf("%s#%s[%s]", vc.curFuncName(), kind, label))
	o := &Obligation{Name: name, Kind: kind, Func: vc.fnName, Goal: full, PrefixLen: len(vc.out), Desc: desc, vc: vc, Block: vc.curTag()}
	o.Merges = append(o.Merges, vc.merges...)
	if pos.IsValid() {
		o.Pos = vc.p.fset.Position(pos)
	}
	vc.obls = append(vc.obls, o)
	vc.assume(goal)
}

// cover records a reachability cover: the current point must be reachable.
func (vc *VC) cover(label string, pos token.Pos) {
	if vc.discovery > 0 {
		return
	}
	name := vc.uniqueName(fmt.Sprintf("%s#cover[%s]", vc.curFuncName(), label))
	o := &Obligation{Name: name, Kind: "cover", Func: vc.fnName, Goal: vc.reach, PrefixLen: len(vc.out), Vacuity: true, vc: vc, Block: vc.curTag()}
	if pos.IsValid() {
		o.Pos = vc.p.fset.Position(pos)
	}
	vc.obls = append(vc.obls, o)
}

func (vc *VC) curFuncName() string {
	if vc.top != nil && vc.top.cur != nil && vc.top.cur != vc.top {
		return vc.fnName + "/" + shortFuncName(vc.top.cur.fn)
	}
	return vc.fnName
}

// Script returns the SMT-LIB text of an obligation.
func (o *Obligation) Script() string { return o.ScriptWith(nil) }

// ScriptWith adds extra assumptions (case-split atoms) before the goal.
func (o *Obligation) ScriptWith(extra []string) string {
	var sb strings.Builder
	defer func() {}()
	for _, e := range extra {
		defer func(e string) {}(e)
	}
	return o.script(&sb, extra)
}

// LightScript drops the assertions that involve real arithmetic (sound:
// fewer assumptions); it is tried when the full script is not decided.
func (o *Obligation) LightScript() (string, bool) {
	o.light = true
	defer func() { o.light = false }()
	s := o.ScriptWith(nil)
	return s, o.dropped > 0
}

func (o *Obligation) script(sbp *strings.Builder, extra []string) string {
	o.dropped = 0
	var sb strings.Builder
	var keep map[int]bool
	if o.Block >= 0 && o.vc.ancestors != nil {
		keep = o.vc.ancestors[o.Block]
	}
	for i, l := range o.vc.out[:o.PrefixLen] {
		// slice away assertions made in blocks that cannot reach this one in
		// the loop-cut control-flow graph (dropping assumptions is sound)
		if keep != nil && o.vc.lineTags[i] >= 0 && !keep[o.vc.lineTags[i]] {
			continue
		}
		// staged loop: the later invariants are not hypotheses of this one
		if h := o.vc.lineHyp[i]; o.Hyp.loop != 0 && h.loop == o.Hyp.loop && h.idx > o.Hyp.idx {
			continue
		}
		if o.light && strings.HasPrefix(l, "(assert") && (strings.Contains(l, "to_int") || strings.Contains(l, "to_real")) {
			o.dropped++
			continue
		}
		sb.WriteString(l)
		sb.WriteString("\n")
	}
	for _, e := range extra {
		fmt.Fprintf(&sb, "(assert %s)\n", e)
	}
	if o.Vacuity {
		fmt.Fprintf(&sb, "(assert %s)\n(check-sat)\n", o.Goal)
	} else {
		fmt.Fprintf(&sb, "(assert (not %s))\n(check-sat)\n", o.Goal)
	}
	return sb.String()
}

// ---------------------------------------------------------------------------
// Storage access.

// heapSort returns the SMT sort of a storage name's content, recorded at first
// use.
func (vc *VC) get(name, sort string) string {
	return vc.getIn(vc.st, name, sort)
}

// ensureSorts declares the opaque sorts mentioned in a sort expression that
// was remembered from another function's translation.
func (vc *VC) ensureSorts(sort string) {
	if !strings.Contains(sort, "O_") && !strings.Contains(sort, "S_") {
		return
	}
	for _, tok := range strings.FieldsFunc(sort, func(r rune) bool { return r == '(' || r == ')' || r == ' ' }) {
		if strings.HasPrefix(tok, "O_") && !vc.declared[tok] {
			vc.declare(tok, "(declare-sort "+tok+" 0)")
		}
		if strings.HasPrefix(tok, "S_") && !vc.declared[tok] {
			if t, ok := vc.p.structTypes[tok]; ok {
				if st, isStruct := t.Underlying().(*types.Struct); isStruct {
					vc.structSort(t, st)
				}
			}
		}
	}
}

func (vc *VC) entryVersion(name, sort string) string {
	vc.ensureSorts(sort)
	c := name + "@0"
	if !vc.declared[c] {
		vc.declare(c, fmt.Sprintf("(declare-const %s %s)", c, sort))
	}
	return c
}

// symState collects the storages read while the body of an fpred is
// translated; each becomes a bound variable of the definitional axiom.
type symState struct {
	names, sorts, vars []string
}

func (vc *VC) getIn(st *State, name, sort string) string {
	if st.sym != nil {
		for i, n := range st.sym.names {
			if n == name {
				return st.sym.vars[i]
			}
		}
		vc.recordSort(name, sort)
		v := fmt.Sprintf("hv%d_%s", len(st.sym.names), sanitize(name))
		st.sym.names = append(st.sym.names, name)
		st.sym.sorts = append(st.sym.sorts, sort)
		st.sym.vars = append(st.sym.vars, v)
		return v
	}
	if t, ok := st.m[name]; ok {
		return t
	}
	vc.recordSort(name, sort)
	if st.epoch != "" && heapLike(name) && !vc.immutableHeaps()[name] {
		vc.ensureSorts(sort)
		c := name + "@" + st.epoch
		if !vc.declared[c] {
			vc.declare(c, fmt.Sprintf("(declare-const %s %s)", c, sort))
		}
		return c
	}
	return vc.entryVersion(name, sort)
}

func heapLike(name string) bool {
	for _, p := range []string{"H.", "E.", "C.", "MD.", "MV.", "G.", "GV."} {
		if strings.HasPrefix(name, p) {
			return true
		}
	}
	return false
}

func (vc *VC) set(name, sort, term string) {
	vc.st.m[name] = vc.define(name, sort, term)
	vc.recordSort(name, sort)
}

var storageSorts = map[string]string{}

func (vc *VC) recordSort(name, sort string) {
	if vc.p.storageSort == nil {
		vc.p.storageSort = map[string]string{}
	}
	vc.p.storageSort[name] = sort
}

func (vc *VC) havocStorage(name, sort string) {
	vc.ensureSorts(sort)
	vc.st.m[name] = vc.fresh(name, sort)
	vc.recordSort(name, sort)
}

// elemHeap is the name of the element heap for slices of elemT.
// typeKey names a Go type for heap separation: values of different Go types
// never share storage (no unsafe in the verified subset).
func (vc *VC) typeKey(t types.Type) string {
	if b, ok := t.(*types.Basic); ok {
		return types.Typ[b.Kind()].Name()
	}
	if c, ok := atomicContent(t); ok {
		return "atomic_" + vc.typeKey(c)
	}
	if _, ok := t.(*types.Named); ok {
		return shortTypeName(t)
	}
	if a, ok := t.(*types.Alias); ok {
		return vc.typeKey(types.Unalias(a))
	}
	switch u := t.(type) {
	case *types.Pointer:
		return "ptr_" + vc.typeKey(u.Elem())
	case *types.Slice:
		return "sl_" + vc.typeKey(u.Elem())
	case *types.Array:
		return fmt.Sprintf("arr%d_%s", u.Len(), vc.typeKey(u.Elem()))
	case *types.Map:
		return "map_" + vc.typeKey(u.Key()) + "_" + vc.typeKey(u.Elem())
	case *types.Interface:
		if u.NumMethods() == 0 {
			return "any"
		}
	}
	return sanitize(types.TypeString(t, nil))
}

func (vc *VC) elemHeap(elemT types.Type) (name, sort string) {
	es := vc.sortOf(elemT)
	return "E." + vc.typeKey(elemT), "(Array Int (Array Int " + es + "))"
}

func (vc *VC) cellHeap(t types.Type) (name, sort string) {
	es := vc.sortOf(t)
	return "C." + vc.typeKey(t), "(Array Int " + es + ")"
}

func (vc *VC) fieldHeap(structT types.Type, f *types.Var) (name, sort string) {
	return vc.heapNameField(structT, f.Name()), "(Array Int " + vc.sortOf(f.Type()) + ")"
}

func (vc *VC) mapHeaps(mt *types.Map) (dom, domSort, val, valSort string) {
	ks, vs := vc.sortOf(mt.Key()), vc.sortOf(mt.Elem())
	key := vc.typeKey(mt.Key()) + "." + vc.typeKey(mt.Elem())
	return "MD." + key, "(Array Int (Array " + ks + " Bool))", "MV." + key, "(Array Int (Array " + ks + " " + vs + "))"
}

// rootSort is the sort of the whole storage `Heap` of a location.
func (vc *VC) rootStorageSort(l *Loc) string {
	es := vc.sortOf(l.RootT)
	switch l.Kind {
	case RField, RCell:
		return "(Array Int " + es + ")"
	case RElem:
		return "(Array Int (Array Int " + es + "))"
	}
	return es
}

// readRoot returns the term of the value stored at the root of l in state st.
func (vc *VC) readRoot(st *State, l *Loc) string {
	h := vc.getIn(st, l.Heap, vc.rootStorageSort(l))
	switch l.Kind {
	case RField, RCell:
		return fmt.Sprintf("(select %s %s)", h, l.Base)
	case RElem:
		return fmt.Sprintf("(select (select %s %s) %s)", h, l.Base, l.Idx)
	}
	return h
}

// project applies the path of l to a root value.
func (vc *VC) project(root string, path []PathElem) string {
	t := root
	for _, pe := range path {
		if pe.Field != "" {
			t = fmt.Sprintf("(%s %s)", vc.accessor(pe.StruT, pe.Field), t)
		} else {
			t = fmt.Sprintf("(select %s %s)", t, pe.Index)
		}
	}
	return t
}

// updatePath returns root with the value at path replaced by v.
func (vc *VC) updatePath(root string, rootT types.Type, path []PathElem, v string) string {
	if len(path) == 0 {
		return v
	}
	pe := path[0]
	if pe.Field != "" {
		st := pe.StruT.Underlying().(*types.Struct)
		var parts []string
		for i := 0; i < st.NumFields(); i++ {
			f := st.Field(i)
			cur := fmt.Sprintf("(%s %s)", vc.accessor(pe.StruT, f.Name()), root)
			if f.Name() == pe.Field {
				parts = append(parts, vc.updatePath(cur, f.Type(), path[1:], v))
			} else {
				parts = append(parts, cur)
			}
		}
		return "(mk_" + vc.sortOf(pe.StruT) + " " + strings.Join(parts, " ") + ")"
	}
	inner := fmt.Sprintf("(select %s %s)", root, pe.Index)
	return fmt.Sprintf("(store %s %s %s)", root, pe.Index, vc.updatePath(inner, pe.ElemT, path[1:], v))
}

// load reads the value at location l in the current state.
func (vc *VC) load(l *Loc) *Val {
	return vc.loadIn(vc.st, l)
}

func (vc *VC) loadIn(st *State, l *Loc) *Val {
	t := vc.project(vc.readRoot(st, l), l.Path)
	return &Val{T: t, Ty: l.targetType()}
}

// immutableHeaps evaluates the `immutable` declarations to storage names.
func (vc *VC) immutableHeaps() map[string]bool {
	if vc.immutable != nil {
		return vc.immutable
	}
	vc.immutable = map[string]bool{}
	for _, im := range vc.p.db.Immutable {
		if vc.p.tpkgs[im.Pkg] == nil && im.Pkg != "" {
			continue
		}
		env := &Env{vars: map[string]*Val{}, st: vc.st, old: vc.st, pkg: im.Pkg, imports: im.Imports}
		locs, err := vc.evalModEntry(im.Expr, env)
		if err != nil {
			// the type may not be part of this load; ignore
			continue
		}
		for _, m := range locs {
			if m.Idx == "" {
				vc.immutable[m.Heap] = true
			}
		}
	}
	return vc.immutable
}

// store writes v at location l in the current state.
func (vc *VC) store(l *Loc, v string, pos token.Pos) {
	if l.Kind == RField && vc.immutableHeaps()[l.Heap] && vc.discovery == 0 {
		vc.oblige("immutable", l.Heap, vc.isFresh(l.Base), pos, "field declared immutable is written on an object that is not being constructed")
	}
	vc.lockWriteCheck(l, pos)
	sortS := vc.rootStorageSort(l)
	h := vc.get(l.Heap, sortS)
	newRoot := vc.updatePath(vc.readRoot(vc.st, l), l.RootT, l.Path, v)
	switch l.Kind {
	case RField, RCell:
		vc.frameCheck(l.Heap, l.Base, pos)
		vc.set(l.Heap, sortS, fmt.Sprintf("(store %s %s %s)", h, l.Base, newRoot))
	case RElem:
		vc.frameCheck(l.Heap, l.Base, pos)
		vc.set(l.Heap, sortS, fmt.Sprintf("(store %s %s (store (select %s %s) %s %s))", h, l.Base, h, l.Base, l.Idx, newRoot))
	case RGlobal:
		vc.frameCheck(l.Heap, "", pos)
		vc.set(l.Heap, sortS, newRoot)
	default:
		vc.set(l.Heap, sortS, newRoot)
	}
}

// ModLoc is one entry of a modifies clause, evaluated.
type ModLoc struct {
	Heap string
	Idx  string // "" = whole storage
	Sort string
	// For quantified havoc of "all fields of x": handled by expansion.
}

func (vc *VC) isFresh(ref string) string {
	return fmt.Sprintf("(>= %s alloc@0)", ref)
}

// frameCheck emits the obligation that a write to heap[idx] is allowed by the
// modifies clause of the function under verification.
func (vc *VC) frameCheck(heap, idx string, pos token.Pos) {
	if vc.discovery > 0 && vc.discWrites != nil {
		vc.discWrites[heap] = append(vc.discWrites[heap], idx)
	}
	if !vc.checkFrame || vc.modAll || vc.discovery > 0 {
		return
	}
	if vc.modHeap && !strings.HasPrefix(heap, "G.") {
		if vc.preserveSelf[heap] {
			goal := "false"
			if idx != "" {
				goal = vc.isFresh(idx)
			}
			vc.oblige("frame", "preserves:"+heap, goal, pos, "write to "+heap+", which the contract promises to preserve (only freshly allocated objects may be written)")
		}
		return
	}
	var alts []string
	if idx != "" && !strings.HasPrefix(heap, "G.") {
		alts = append(alts, vc.isFresh(idx))
	}
	for _, m := range vc.modLocs {
		if m.Heap != heap {
			continue
		}
		if m.Idx == "" || idx == "" {
			if m.Idx == "" {
				return // whole storage may be modified
			}
			continue
		}
		alts = append(alts, fmt.Sprintf("(= %s %s)", idx, m.Idx))
	}
	goal := "false"
	if len(alts) == 1 {
		goal = alts[0]
	} else if len(alts) > 1 {
		goal = "(or " + strings.Join(alts, " ") + ")"
	}
	vc.oblige("frame", heap, goal, pos, "write to "+heap+" must be permitted by the modifies clause (or hit a freshly allocated object)")
}

// allocRef allocates a fresh reference.
func (vc *VC) allocRef(hint string) string {
	r := vc.fresh(hint, "Int")
	// references are handed out in increasing order: r is allocated iff 0 < r < alloc
	a := vc.get("alloc", "Int")
	vc.assume(fmt.Sprintf("(and (> %s 0) (>= %s %s))", r, r, a))
	vc.set("alloc", "Int", fmt.Sprintf("(+ %s 1)", r))
	return r
}

// strLit returns the constant for a string literal.
func (vc *VC) strLit(s string) string {
	if c, ok := vc.strLits[s]; ok {
		return c
	}
	name := fmt.Sprintf("str!%d", len(vc.strLits))
	vc.strLits[s] = name
	vc.declared["strlit:"+s] = true
	vc.declLog = append(vc.declLog, "strlit:"+s)
	saveG, saveN := vc.globalFact, vc.noEmit
	vc.globalFact, vc.noEmit = true, 0
	defer func() { vc.globalFact, vc.noEmit = saveG, saveN }()
	vc.push(fmt.Sprintf("(declare-const %s Str) ; %q", name, truncate(s, 40)))
	vc.push(fmt.Sprintf("(assert (= (slen %s) %d))", name, len(s)))
	for _, o := range vc.strOrder {
		vc.push(fmt.Sprintf("(assert (not (= %s %s)))", name, vc.strLits[o]))
	}
	if len(s) <= 16 {
		for i := 0; i < len(s); i++ {
			vc.push(fmt.Sprintf("(assert (= (sat %s %d) %d))", name, i, s[i]))
		}
	}
	vc.strOrder = append(vc.strOrder, s)
	return name
}

func truncate(s string, n int) string {
	if len(s) > n {
		return s[:n] + "..."
	}
	return s
}

// mergeStates merges the states of several incoming edges.
func (vc *VC) mergeStates(conds []string, states []*State) *State {
	if len(states) == 1 {
		return states[0].clone()
	}
	keys := map[string]bool{}
	sameEpoch := true
	for _, s := range states {
		for k := range s.m {
			keys[k] = true
		}
		if s.epoch != states[0].epoch {
			sameEpoch = false
		}
	}
	if !sameEpoch {
		for k := range vc.p.storageSort {
			if heapLike(k) {
				keys[k] = true
			}
		}
	}
	ks := make([]string, 0, len(keys))
	for k := range keys {
		ks = append(ks, k)
	}
	sort.Strings(ks)
	out := newState()
	out.epoch = states[0].epoch
	for k := range states[0].held {
		all := true
		for _, s := range states[1:] {
			if !s.held[k] {
				all = false
			}
		}
		if all {
			out.held[k] = true
		}
	}
	if !sameEpoch {
		vc.nfresh++
		out.epoch = fmt.Sprintf("m%d", vc.nfresh)
	}
	for _, k := range ks {
		srt, ok := vc.p.storageSort[k]
		if !ok {
			srt = vc.guessSort(k)
		}
		terms := make([]string, len(states))
		same := true
		for i, s := range states {
			terms[i] = vc.getIn(s, k, srt)
			if terms[i] != terms[0] {
				same = false
			}
		}
		if same {
			out.m[k] = terms[0]
			continue
		}
		t := terms[len(terms)-1]
		for i := len(terms) - 2; i >= 0; i-- {
			t = fmt.Sprintf("(ite %s %s %s)", conds[i], terms[i], t)
		}
		out.m[k] = vc.define(k, srt, t)
	}
	return out
}

func (vc *VC) guessSort(k string) string {
	if k == "alloc" {
		return "Int"
	}
	panic("unknown storage sort for " + k)
}

func shortFuncName(fn *ssa.Function) string {
	s := fn.String()
	s = strings.ReplaceAll(s, "github.com/AdguardTeam/AdGuardDNS/internal/", "")
	s = strings.ReplaceAll(s, "github.com/AdguardTeam/", "")
	s = strings.ReplaceAll(s, "github.com/", "")
	return s
}

// canon follows the copy chain of a symbol.
func (vc *VC) canon(t string) string {
	for i := 0; i < 20; i++ {
		a, ok := vc.alias[t]
		if !ok {
			return t
		}
		t = a
	}
	return t
}

// havocRec describes one whole-heap havoc met while discovering what a loop
// body modifies: whether ghost state survived it and which storages the
// callee promised to preserve.
type havocRec struct {
	keepGhost bool
	keep      map[string]bool
}

package main

// Evaluation of specification expressions to SMT terms.

import (
	"os"
	"regexp"
	"fmt"
	"go/constant"
	"go/types"
	"math/big"
	"strconv"
	"strings"
)

type Env struct {
	vars    map[string]*Val
	st, old *State
	pkg     string
	imports map[string]string
	modMode bool // evaluating a modifies entry: produce locations
	where   string
}

func (e *Env) with(name string, v *Val) *Env {
	n := &Env{vars: map[string]*Val{}, st: e.st, old: e.old, pkg: e.pkg, imports: e.imports, modMode: e.modMode, where: e.where}
	for k, x := range e.vars {
		n.vars[k] = x
	}
	n.vars[name] = v
	return n
}

func (e *Env) inState(st *State) *Env {
	return &Env{vars: e.vars, st: st, old: e.old, pkg: e.pkg, imports: e.imports, modMode: e.modMode, where: e.where}
}

type evalError struct{ msg string }

func (vc *VC) evalFail(env *Env, format string, args ...any) {
	panic(evalError{fmt.Sprintf("%s: ", env.where) + fmt.Sprintf(format, args...)})
}

// evalBool evaluates a clause to an SMT Bool term; errors are recorded.
func (vc *VC) evalBool(cl *Clause, env *Env) (term string, ok bool) {
	defer vc.flushAxioms()
	defer func() {
		if r := recover(); r != nil {
			if ee, isEE := r.(evalError); isEE {
				vc.errorf("%s:%d: %s", cl.File, cl.Line, ee.msg)
				term, ok = "true", false
				return
			}
			panic(r)
		}
	}()
	env.where = fmt.Sprintf("%q", truncate(cl.Src, 60))
	v := vc.eval(cl.Expr, env)
	if vc.sortOf(v.Ty) != "Bool" {
		vc.evalFail(env, "clause is not boolean (type %s)", v.Ty)
	}
	return v.T, true
}

func (vc *VC) resolvePkg(alias string, env *Env) *types.Package {
	if p, ok := env.imports[alias]; ok {
		return vc.p.tpkgs[p]
	}
	if p, ok := vc.p.tpkgs[alias]; ok && !strings.Contains(alias, "/") {
		// standard-library package named by its path (time, net, io, ...)
		if cur := vc.p.tpkgs[env.pkg]; cur == nil || cur.Scope().Lookup(alias) == nil {
			return p
		}
	}
	// imported by the spec's package under that name?
	if cur := vc.p.tpkgs[env.pkg]; cur != nil {
		for _, imp := range cur.Imports() {
			if imp.Name() == alias {
				return imp
			}
		}
	}
	return nil
}

func (vc *VC) resolveType(te *TypeExpr, pkg string, imports map[string]string, specInts bool) types.Type {
	env := &Env{pkg: pkg, imports: imports}
	switch te.Kind {
	case "ptr":
		return types.NewPointer(vc.resolveType(te.Elem, pkg, imports, false))
	case "slice":
		return types.NewSlice(vc.resolveType(te.Elem, pkg, imports, false))
	case "array":
		n, _ := strconv.ParseInt(te.Len, 0, 64)
		return types.NewArray(vc.resolveType(te.Elem, pkg, imports, false), n)
	case "map":
		return &GhostArr{K: vc.resolveType(te.Key, pkg, imports, specInts), V: vc.resolveType(te.Elem, pkg, imports, specInts)}
	case "name":
		if te.Pkg == "" {
			if te.Name == "int" && specInts {
				return MathInt
			}
			if te.Name == "Ref" {
				return types.NewPointer(types.NewStruct(nil, nil))
			}
			if o := types.Universe.Lookup(te.Name); o != nil {
				if tn, ok := o.(*types.TypeName); ok {
					return tn.Type()
				}
			}
			if cur := vc.p.tpkgs[pkg]; cur != nil {
				if o := cur.Scope().Lookup(te.Name); o != nil {
					if tn, ok := o.(*types.TypeName); ok {
						return tn.Type()
					}
				}
			}
			panic(evalError{fmt.Sprintf("unknown type %s (package %s)", te.Name, pkg)})
		}
		p := vc.resolvePkg(te.Pkg, env)
		if p == nil {
			panic(evalError{fmt.Sprintf("unknown package alias %s", te.Pkg)})
		}
		o := p.Scope().Lookup(te.Name)
		if tn, ok := o.(*types.TypeName); ok {
			if len(te.Args) > 0 {
				var targs []types.Type
				for _, a := range te.Args {
					targs = append(targs, vc.resolveType(a, pkg, imports, false))
				}
				inst, err := types.Instantiate(nil, tn.Type(), targs, false)
				if err != nil {
					panic(evalError{fmt.Sprintf("instantiating %s: %v", te.String(), err)})
				}
				return inst
			}
			return tn.Type()
		}
		panic(evalError{fmt.Sprintf("unknown type %s.%s", te.Pkg, te.Name)})
	}
	panic(evalError{"bad type expression"})
}

func constToVal(vc *VC, c constant.Value, t types.Type) *Val {
	switch c.Kind() {
	case constant.Bool:
		if constant.BoolVal(c) {
			return &Val{T: "true", Ty: t}
		}
		return &Val{T: "false", Ty: t}
	case constant.String:
		return &Val{T: vc.strLit(constant.StringVal(c)), Ty: t}
	case constant.Int:
		bi, ok := new(big.Int).SetString(c.ExactString(), 10)
		if !ok {
			bi = big.NewInt(0)
		}
		return &Val{T: smtInt(bi), Ty: t}
	case constant.Float:
		f, _ := constant.Float64Val(c)
		if vc.sortOf(t) == "Int" {
			i, _ := constant.Int64Val(constant.ToInt(c))
			return &Val{T: smtInt(big.NewInt(i)), Ty: t}
		}
		r := new(big.Rat)
		r.SetFloat64(f)
		return &Val{T: ratToSMT(r), Ty: t}
	}
	return &Val{T: "0", Ty: t}
}

func ratToSMT(r *big.Rat) string {
	neg := r.Sign() < 0
	a := new(big.Rat).Abs(r)
	s := fmt.Sprintf("(/ %s.0 %s.0)", a.Num().String(), a.Denom().String())
	if neg {
		return "(- " + s + ")"
	}
	return s
}

func (vc *VC) eval(e *SExpr, env *Env) *Val {
	switch e.Op {
	case "int":
		bi, ok := new(big.Int).SetString(e.Name, 0)
		if !ok {
			vc.evalFail(env, "bad integer %s", e.Name)
		}
		return &Val{T: smtInt(bi), Ty: MathInt}
	case "string":
		s, err := strconv.Unquote(e.Name)
		if err != nil {
			vc.evalFail(env, "bad string %s", e.Name)
		}
		return &Val{T: vc.strLit(s), Ty: types.Typ[types.String]}
	case "char":
		s, _, _, err := strconv.UnquoteChar(e.Name[1:len(e.Name)-1], '\'')
		if err != nil {
			vc.evalFail(env, "bad char %s", e.Name)
		}
		return &Val{T: strconv.Itoa(int(s)), Ty: MathInt}
	case "ident":
		return vc.evalIdent(e.Name, env)
	case "unop":
		x := vc.eval(e.Args[0], env)
		if e.Name == "!" {
			return &Val{T: "(not " + x.T + ")", Ty: types.Typ[types.Bool]}
		}
		if vc.sortOf(x.Ty) == "Real" {
			return &Val{T: "(- " + x.T + ")", Ty: x.Ty}
		}
		return &Val{T: "(- " + x.T + ")", Ty: MathInt}
	case "binop":
		return vc.evalBinop(e, env)
	case "tern":
		c := vc.eval(e.Args[0], env)
		a := vc.eval(e.Args[1], env)
		b := vc.eval(e.Args[2], env)
		a, b = vc.unifyNil(a, b)
		return &Val{T: fmt.Sprintf("(ite %s %s %s)", c.T, a.T, b.T), Ty: pickType(a.Ty, b.Ty)}
	case "quant":
		inner := env
		var decls, guards, qnames []string
		allRefs := true
		for _, b := range e.Binders {
			t := vc.resolveType(b.Type, env.pkg, env.imports, true)
			vc.nquant++
			name := fmt.Sprintf("q_%s_%d", sanitize(b.Name), vc.nquant)
			decls = append(decls, fmt.Sprintf("(%s %s)", name, vc.sortOf(t)))
			inner = inner.with(b.Name, &Val{T: name, Ty: t})
			qnames = append(qnames, name)
			if _, isPtr := t.Underlying().(*types.Pointer); !isPtr {
				allRefs = false
			}
			if _, isPtr := t.Underlying().(*types.Pointer); isPtr {
				// references range over all integers: the same translation is
				// used where a quantified fact is assumed and where it is proved
				continue
			}
			if bt, isBasic := t.Underlying().(*types.Basic); isBasic && bt.Info()&types.IsString != 0 {
				// likewise for strings: a guard on (slen q) only gets in the way
				// of instantiation (lengths of strings read from the heap are
				// not known to be non-negative term by term)
				continue
			}
			if rf := vc.rangeFact(name, t); rf != "" {
				guards = append(guards, rf)
			}
		}
		body := vc.eval(e.Args[0], inner)
		bt := body.T
		if len(guards) > 0 {
			g := "(and " + strings.Join(guards, " ") + ")"
			if e.Name == "forall" {
				bt = fmt.Sprintf("(=> %s %s)", g, bt)
			} else {
				bt = fmt.Sprintf("(and %s %s)", g, bt)
			}
		}
		if len(e.Args) > 1 {
			// explicit trigger given in the contract
			var pats []string
			for _, grp := range e.Args[1:] {
				var ts []string
				for _, te := range grp.Args {
					ts = append(ts, vc.eval(te, inner).T)
				}
				pats = append(pats, ":pattern ("+strings.Join(ts, " ")+")")
			}
			return &Val{T: fmt.Sprintf("(%s (%s) (! %s %s))", e.Name, strings.Join(decls, " "), bt, strings.Join(pats, " ")), Ty: types.Typ[types.Bool]}
		}
		if !allRefs {
			if pats := selectPatterns(bt, qnames); pats != "" {
				return &Val{T: fmt.Sprintf("(%s (%s) (! %s %s))", e.Name, strings.Join(decls, " "), bt, pats), Ty: types.Typ[types.Bool]}
			}
		}
		if pats := refPatterns(bt, qnames, allRefs); pats != "" {
			return &Val{T: fmt.Sprintf("(%s (%s) (! %s %s))", e.Name, strings.Join(decls, " "), bt, pats), Ty: types.Typ[types.Bool]}
		}
		return &Val{T: fmt.Sprintf("(%s (%s) %s)", e.Name, strings.Join(decls, " "), bt), Ty: types.Typ[types.Bool]}
	case "field":
		return vc.evalField(e, env)
	case "index":
		x := vc.eval(e.Args[0], env)
		i := vc.eval(e.Args[1], env)
		if x.IsType && x.TypeV != nil && i.IsType && i.TypeV != nil {
			// instantiation of a generic type: T[A]
			inst, err := types.Instantiate(nil, x.TypeV, []types.Type{i.TypeV}, false)
			if err != nil {
				vc.evalFail(env, "instantiating %s: %v", e.String(), err)
			}
			return &Val{IsType: true, TypeV: inst, Ty: inst}
		}
		return vc.indexVal(x, i, env)
	case "slice":
		x := vc.eval(e.Args[0], env)
		lo := "0"
		if e.Args[1] != nil {
			lo = vc.eval(e.Args[1], env).T
		}
		switch x.Ty.Underlying().(type) {
		case *types.Slice:
			hi := fmt.Sprintf("(s_len %s)", x.T)
			if e.Args[2] != nil {
				hi = vc.eval(e.Args[2], env).T
			}
			return &Val{T: fmt.Sprintf("(mk_slice (s_arr %s) (+ (s_off %s) %s) (- %s %s) (- (s_cap %s) %s))", x.T, x.T, lo, hi, lo, x.T, lo), Ty: x.Ty}
		case *types.Basic:
			hi := fmt.Sprintf("(slen %s)", x.T)
			if e.Args[2] != nil {
				hi = vc.eval(e.Args[2], env).T
			}
			if !vc.declared["ssub-axioms"] {
				// substring facts, only in scripts whose contracts slice strings
				saveG, saveN := vc.globalFact, vc.noEmit
				vc.globalFact, vc.noEmit = true, 0
				vc.declare("ssub-axioms", "(assert (forall ((s Str) (n Int)) (! (=> (= n (slen s)) (= (ssub s 0 n) s)) :pattern ((ssub s 0 n)))))\n"+
					"(assert (forall ((s Str) (lo Int) (hi Int)) (! (=> (and (<= 0 lo) (<= lo hi) (<= hi (slen s))) (= (slen (ssub s lo hi)) (- hi lo))) :pattern ((ssub s lo hi)))))")
				vc.globalFact, vc.noEmit = saveG, saveN
			}
			return &Val{T: fmt.Sprintf("(ssub %s %s %s)", x.T, lo, hi), Ty: x.Ty}
		}
		vc.evalFail(env, "cannot slice %s", x.Ty)
	case "call":
		return vc.evalCall(e, env)
	case "type":
		t := vc.resolveType(e.Type, env.pkg, env.imports, false)
		return &Val{IsType: true, TypeV: t, Ty: t}
	case "typeassert":
		x := vc.eval(e.Args[0], env)
		t := vc.resolveType(e.Type, env.pkg, env.imports, false)
		return vc.unboxIface(x.T, t)
	}
	vc.evalFail(env, "unsupported expression %s", e.String())
	return nil
}

func pickType(a, b types.Type) types.Type {
	if isMathInt(a) || isUntypedNil(a) {
		return b
	}
	return a
}

func isUntypedNil(t types.Type) bool {
	b, ok := t.(*types.Basic)
	return ok && b.Kind() == types.UntypedNil
}

// unifyNil gives an untyped nil operand the zero value of the other operand's
// type.
func (vc *VC) unifyNil(a, b *Val) (*Val, *Val) {
	if isUntypedNil(a.Ty) && !isUntypedNil(b.Ty) {
		a = &Val{T: vc.zeroValue(b.Ty), Ty: b.Ty}
	}
	if isUntypedNil(b.Ty) && !isUntypedNil(a.Ty) {
		b = &Val{T: vc.zeroValue(a.Ty), Ty: a.Ty}
	}
	return a, b
}

func (vc *VC) evalIdent(name string, env *Env) *Val {
	if v, ok := env.vars[name]; ok {
		if v.DerefOf != nil {
			// a local variable that lives in the heap (its address is taken):
			// its value in the state of the environment
			return vc.derefIn(env, v.DerefOf)
		}
		if v.Loc != nil && v.T == "" {
			// variable held in a cell (named result captured by a closure)
			return vc.loadIn(env.st, v.Loc)
		}
		return v
	}
	switch name {
	case "nil":
		return &Val{T: "0", Ty: types.Typ[types.UntypedNil]}
	case "true", "false":
		return &Val{T: name, Ty: types.Typ[types.Bool]}
	}
	if g, ok := vc.p.db.Ghosts[name]; ok {
		t := vc.resolveType(g.Type, g.Pkg, g.Imports, true)
		return &Val{T: vc.getIn(env.st, "G."+name, vc.sortOf(t)), Ty: t, Loc: &Loc{Kind: RLocal, Heap: "G." + name, RootT: t}}
	}
	// Go package scope.
	if cur := vc.p.tpkgs[env.pkg]; cur != nil {
		if o := cur.Scope().Lookup(name); o != nil {
			return vc.objVal(o, env)
		}
	}
	if o := types.Universe.Lookup(name); o != nil {
		if tn, ok := o.(*types.TypeName); ok {
			return &Val{IsType: true, TypeV: tn.Type(), Ty: tn.Type()}
		}
	}
	if p := vc.resolvePkg(name, env); p != nil {
		return &Val{IsType: true, TypeV: nil, Path: "pkg:" + p.Path()}
	}
	vc.evalFail(env, "unknown identifier %s", name)
	return nil
}

func (vc *VC) objVal(o types.Object, env *Env) *Val {
	switch o := o.(type) {
	case *types.Const:
		return constToVal(vc, o.Val(), o.Type())
	case *types.TypeName:
		return &Val{IsType: true, TypeV: o.Type(), Ty: o.Type()}
	case *types.Var:
		l := vc.globalLoc(o)
		v := vc.loadIn(env.st, l)
		v.Loc = l
		return v
	}
	vc.evalFail(env, "cannot use %s in a specification", o.Name())
	return nil
}

func (vc *VC) globalLoc(o *types.Var) *Loc {
	return &Loc{Kind: RGlobal, Heap: "GV." + sanitize(o.Pkg().Path()) + "." + o.Name(), RootT: o.Type()}
}

func (vc *VC) evalBinop(e *SExpr, env *Env) *Val {
	boolT := types.Typ[types.Bool]
	a := vc.eval(e.Args[0], env)
	b := vc.eval(e.Args[1], env)
	switch e.Name {
	case "&&":
		return &Val{T: fmt.Sprintf("(and %s %s)", a.T, b.T), Ty: boolT}
	case "||":
		return &Val{T: fmt.Sprintf("(or %s %s)", a.T, b.T), Ty: boolT}
	case "==>":
		return &Val{T: fmt.Sprintf("(=> %s %s)", a.T, b.T), Ty: boolT}
	case "<==>":
		return &Val{T: fmt.Sprintf("(= %s %s)", a.T, b.T), Ty: boolT}
	case "==", "!=":
		a, b = vc.unifyNil(a, b)
		var t string
		if a.IsType || b.IsType {
			vc.evalFail(env, "type used as value in %s", e.String())
		}
		sa, sb := vc.sortOf(a.Ty), vc.sortOf(b.Ty)
		if sa != sb {
			vc.evalFail(env, "comparison of different sorts %s (%s) and %s (%s) in %s", sa, a.Ty, sb, b.Ty, e.String())
		}
		if sa == "Slice" && (b.T == "(mk_slice 0 0 0 0)" || a.T == "(mk_slice 0 0 0 0)") {
			x := a
			if a.T == "(mk_slice 0 0 0 0)" {
				x = b
			}
			t = fmt.Sprintf("(= (s_arr %s) 0)", x.T)
		} else if isArrayType(a.Ty) {
			t = vc.arrEq(a.T, b.T, a.Ty)
		} else {
			t = fmt.Sprintf("(= %s %s)", a.T, b.T)
		}
		if e.Name == "!=" {
			t = "(not " + t + ")"
		}
		return &Val{T: t, Ty: boolT}
	case "<", "<=", ">", ">=":
		if vc.sortOf(a.Ty) == "Str" {
			vc.evalFail(env, "string ordering not supported in specs")
		}
		a, b = vc.coerceNum(a, b)
		return &Val{T: fmt.Sprintf("(%s %s %s)", e.Name, a.T, b.T), Ty: boolT}
	case "+", "-", "*":
		if vc.sortOf(a.Ty) == "Str" && e.Name == "+" {
			return &Val{T: fmt.Sprintf("(sconcat %s %s)", a.T, b.T), Ty: a.Ty}
		}
		a, b = vc.coerceNum(a, b)
		rt := MathInt
		if vc.sortOf(a.Ty) == "Real" {
			rt = a.Ty
		}
		return &Val{T: fmt.Sprintf("(%s %s %s)", e.Name, a.T, b.T), Ty: rt}
	case "/":
		a, b = vc.coerceNum(a, b)
		if vc.sortOf(a.Ty) == "Real" {
			return &Val{T: fmt.Sprintf("(/ %s %s)", a.T, b.T), Ty: a.Ty}
		}
		// Spec division is Go's truncated division.
		return &Val{T: goDiv(a.T, b.T), Ty: MathInt}
	case "%":
		return &Val{T: goRem(a.T, b.T), Ty: MathInt}
	}
	vc.evalFail(env, "unsupported operator %s", e.Name)
	return nil
}

func (vc *VC) coerceNum(a, b *Val) (*Val, *Val) {
	sa, sb := vc.sortOf(a.Ty), vc.sortOf(b.Ty)
	if sa == "Real" && sb == "Int" {
		b = &Val{T: "(to_real " + b.T + ")", Ty: a.Ty}
	}
	if sb == "Real" && sa == "Int" {
		a = &Val{T: "(to_real " + a.T + ")", Ty: b.Ty}
	}
	return a, b
}

// goDiv is Go's truncated integer division in terms of SMT's floored div.
func goDiv(a, b string) string {
	return fmt.Sprintf("(ite (>= %s 0) (div %s %s) (- (div (- %s) %s)))", a, a, b, a, b)
}

func goRem(a, b string) string {
	return fmt.Sprintf("(ite (>= %s 0) (mod %s %s) (- (mod (- %s) %s)))", a, a, b, a, b)
}

// fieldPath finds the (possibly promoted) field name in type t.
func fieldPath(t types.Type, name string, pkg *types.Package) ([]int, *types.Var) {
	obj, idx, _ := types.LookupFieldOrMethod(t, true, pkg, name)
	if v, ok := obj.(*types.Var); ok && v.IsField() {
		return idx, v
	}
	return nil, nil
}

func (vc *VC) evalField(e *SExpr, env *Env) *Val {
	// Qualified identifier?
	if e.Args[0].Op == "ident" {
		if _, isVar := env.vars[e.Args[0].Name]; !isVar {
			if p := vc.resolvePkg(e.Args[0].Name, env); p != nil {
				if _, shadow := vc.p.db.Ghosts[e.Args[0].Name]; !shadow {
					o := p.Scope().Lookup(e.Name)
					if o == nil {
						vc.evalFail(env, "%s.%s not found", e.Args[0].Name, e.Name)
					}
					return vc.objVal(o, env)
				}
			}
		}
	}
	x := vc.eval(e.Args[0], env)
	if x.IsType {
		vc.evalFail(env, "type.field only allowed in modifies: %s", e.String())
	}
	return vc.fieldOf(x, e.Name, env)
}

// fieldOf reads field `name` of x (pointer to struct or struct value).
func (vc *VC) fieldOf(x *Val, name string, env *Env) *Val {
	pkg := vc.p.tpkgs[env.pkg]
	t := x.Ty
	idx, fv := fieldPath(t, name, pkg)
	if fv == nil {
		// Unexported field of another package: look it up ignoring the package.
		idx, fv = vc.fieldPathAnyPkg(t, name)
	}
	if fv == nil {
		vc.evalFail(env, "no field %s in %s", name, t)
	}
	cur := x
	for _, i := range idx {
		cur = vc.stepField(cur, i, env)
	}
	return cur
}

func (vc *VC) fieldPathAnyPkg(t types.Type, name string) ([]int, *types.Var) {
	var st *types.Struct
	base := t
	if p, ok := t.Underlying().(*types.Pointer); ok {
		base = p.Elem()
	}
	st, ok := base.Underlying().(*types.Struct)
	if !ok {
		return nil, nil
	}
	for i := 0; i < st.NumFields(); i++ {
		if st.Field(i).Name() == name {
			return []int{i}, st.Field(i)
		}
	}
	for i := 0; i < st.NumFields(); i++ {
		if st.Field(i).Embedded() {
			if idx, fv := vc.fieldPathAnyPkg(st.Field(i).Type(), name); fv != nil {
				return append([]int{i}, idx...), fv
			}
		}
	}
	return nil, nil
}

func (vc *VC) stepField(x *Val, i int, env *Env) *Val {
	switch u := x.Ty.Underlying().(type) {
	case *types.Pointer:
		st, ok := u.Elem().Underlying().(*types.Struct)
		if !ok {
			vc.evalFail(env, "field access through pointer to non-struct %s", x.Ty)
		}
		f := st.Field(i)
		hn, hs := vc.fieldHeap(u.Elem(), f)
		l := &Loc{Kind: RField, Heap: hn, Base: x.T, RootT: f.Type()}
		if x.Loc != nil && x.T == "" {
			// pointer known only as a location of a struct value
			nl := *x.Loc
			nl.Path = append(append([]PathElem{}, x.Loc.Path...), PathElem{Field: f.Name(), StruT: u.Elem(), ElemT: f.Type()})
			v := vc.loadIn(env.st, &nl)
			v.Loc = &nl
			return v
		}
		h := vc.getIn(env.st, hn, hs)
		vc.heapRangeAxiom(h, f.Type())
		term := fmt.Sprintf("(select %s %s)", h, x.T)
		if !strings.Contains(x.T, "q_") {
			// a ground read: state the typing facts of this very term
			key := "rangeof:" + term
			if !vc.declared[key] {
				if rf := vc.rangeFact(term, f.Type()); rf != "" {
					vc.declared[key] = true
					vc.declLog = append(vc.declLog, key)
					vc.emit("(assert %s)", rf)
				}
			}
		}
		return &Val{T: term, Ty: f.Type(), Loc: l}
	case *types.Struct:
		f := u.Field(i)
		v := &Val{T: fmt.Sprintf("(%s %s)", vc.accessor(x.Ty, f.Name()), x.T), Ty: f.Type()}
		if x.Loc != nil {
			nl := *x.Loc
			nl.Path = append(append([]PathElem{}, x.Loc.Path...), PathElem{Field: f.Name(), StruT: x.Ty, ElemT: f.Type()})
			v.Loc = &nl
		}
		return v
	}
	vc.evalFail(env, "field access on %s", x.Ty)
	return nil
}

func (vc *VC) indexVal(x, i *Val, env *Env) *Val {
	if ga, ok := x.Ty.(*GhostArr); ok {
		v := &Val{T: fmt.Sprintf("(select %s %s)", x.T, i.T), Ty: ga.V}
		if x.Loc != nil {
			nl := *x.Loc
			nl.Path = append(append([]PathElem{}, x.Loc.Path...), PathElem{Index: i.T, ElemT: ga.V})
			v.Loc = &nl
		}
		return v
	}
	switch u := x.Ty.Underlying().(type) {
	case *types.Slice:
		hn, hs := vc.elemHeap(u.Elem())
		h := vc.getIn(env.st, hn, hs)
		idx := fmt.Sprintf("(+ (s_off %s) %s)", x.T, i.T)
		return &Val{T: fmt.Sprintf("(select (select %s (s_arr %s)) %s)", h, x.T, idx), Ty: u.Elem(),
			Loc: &Loc{Kind: RElem, Heap: hn, Base: fmt.Sprintf("(s_arr %s)", x.T), Idx: idx, RootT: u.Elem()}}
	case *types.Array:
		v := &Val{T: fmt.Sprintf("(select %s %s)", x.T, i.T), Ty: u.Elem()}
		if x.Loc != nil {
			nl := *x.Loc
			nl.Path = append(append([]PathElem{}, x.Loc.Path...), PathElem{Index: i.T, ElemT: u.Elem()})
			v.Loc = &nl
		}
		return v
	case *types.Map:
		_, _, vn, vs := vc.mapHeaps(u)
		h := vc.getIn(env.st, vn, vs)
		return &Val{T: fmt.Sprintf("(select (select %s %s) %s)", h, x.T, vc.mapKey(u, i.T)), Ty: u.Elem()}
	case *types.Basic:
		if u.Info()&types.IsString != 0 {
			return &Val{T: fmt.Sprintf("(sat %s %s)", x.T, i.T), Ty: MathInt}
		}
	case *types.Pointer:
		if at, ok := u.Elem().Underlying().(*types.Array); ok && x.T != "" {
			// a pointer to an array that is a value (loaded from a field,
			// a parameter): the elements live in the element heap at the
			// pointer, as in the execution of IndexAddr
			hn, hs := vc.elemHeap(at.Elem())
			h := vc.getIn(env.st, hn, hs)
			return &Val{T: fmt.Sprintf("(select (select %s %s) %s)", h, x.T, i.T), Ty: at.Elem(),
				Loc: &Loc{Kind: RElem, Heap: hn, Base: x.T, Idx: i.T, RootT: at.Elem()}}
		}
		if at, ok := u.Elem().Underlying().(*types.Array); ok && x.Loc != nil {
			nl := *x.Loc
			nl.Path = append(append([]PathElem{}, x.Loc.Path...), PathElem{Index: i.T, ElemT: at.Elem()})
			v := vc.loadIn(env.st, &nl)
			v.Loc = &nl
			return v
		}
	}
	vc.evalFail(env, "cannot index %s", x.Ty)
	return nil
}

// unboxIface extracts the payload of interface value x as dynamic type t.
func (vc *VC) unboxIface(x string, t types.Type) *Val {
	switch t.Underlying().(type) {
	case *types.Pointer, *types.Map, *types.Chan, *types.Signature:
		return &Val{T: fmt.Sprintf("(i_ref %s)", x), Ty: t}
	case *types.Interface:
		return &Val{T: x, Ty: t}
	}
	_, unbox := vc.boxFuns(t)
	return &Val{T: fmt.Sprintf("(%s (i_ref %s))", unbox, x), Ty: t}
}

func (vc *VC) boxFuns(t types.Type) (box, unbox string) {
	s := vc.sortOf(t)
	key := sanitize(types.TypeString(t, nil))
	box, unbox = "box_"+key, "unbox_"+key
	if !vc.declared[box] {
		vc.declare(box, fmt.Sprintf("(declare-fun %s (%s) Int)", box, s))
		vc.declare(unbox, fmt.Sprintf("(declare-fun %s (Int) %s)", unbox, s))
	}
	return
}

func (vc *VC) evalCall(e *SExpr, env *Env) *Val {
	boolT := types.Typ[types.Bool]
	fe := e.Args[0]
	args := e.Args[1:]
	if fe.Op == "ident" {
		switch fe.Name {
		case "old":
			if env.old == nil {
				vc.evalFail(env, "old() not available here")
			}
			return vc.eval(args[0], env.inState(env.old))
		case "locked":
			// the value of an expression right after the latest lock acquisition
			if vc.lockedSt == nil {
				vc.evalFail(env, "locked() used where no lock has been acquired")
			}
			return vc.eval(args[0], env.inState(vc.lockedSt))
		case "len":
			x := vc.eval(args[0], env)
			switch u := x.Ty.Underlying().(type) {
			case *types.Slice:
				return &Val{T: fmt.Sprintf("(s_len %s)", x.T), Ty: MathInt}
			case *types.Basic:
				return &Val{T: fmt.Sprintf("(slen %s)", x.T), Ty: MathInt}
			case *types.Array:
				return &Val{T: strconv.FormatInt(u.Len(), 10), Ty: MathInt}
			case *types.Map:
				return &Val{T: vc.mapLen(env.st, u, x.T), Ty: MathInt}
			}
			vc.evalFail(env, "len of %s", x.Ty)
		case "subarr":
			// subarr(a, lo, T): the array value of type T made of len(T)
			// elements of array a from index lo on
			a := vc.eval(args[0], env)
			lo := vc.eval(args[1], env)
			tv := vc.eval(args[2], env)
			if !tv.IsType || tv.TypeV == nil || !isArrayType(a.Ty) || !isArrayType(tv.TypeV) {
				vc.evalFail(env, "subarr(array, index, ArrayType)")
			}
			return &Val{T: vc.arrWindow(a.T, lo.T, tv.TypeV), Ty: tv.TypeV}
		case "idx":
			// idx(j): index marker, for triggers only (see markIndex)
			x := vc.eval(args[0], env)
			return &Val{T: fmt.Sprintf("(%s %s)", vc.jmark(), x.T), Ty: boolT}
		case "arrlit":
			// arrlit(T, e0, ..., eN-1): the array value of type T with these elements
			tv := vc.eval(args[0], env)
			if !tv.IsType || tv.TypeV == nil || !isArrayType(tv.TypeV) {
				vc.evalFail(env, "arrlit(ArrayType, elements...)")
			}
			at, ok := vc.arrUnrollable(tv.TypeV)
			if !ok || int64(len(args)-1) != at.Len() {
				vc.evalFail(env, "arrlit: %s needs %d scalar elements", tv.TypeV, at.Len())
			}
			var elems []string
			for _, a := range args[1:] {
				elems = append(elems, vc.eval(a, env).T)
			}
			return &Val{T: vc.arrChain(tv.TypeV, at, elems), Ty: tv.TypeV}
		case "strof":
			// strof(b): the string made of the bytes of slice b
			x := vc.eval(args[0], env)
			sl, ok := x.Ty.Underlying().(*types.Slice)
			if !ok || vc.sortOf(sl.Elem()) != "Int" {
				vc.evalFail(env, "strof needs a byte slice")
			}
			hn, hs := vc.elemHeap(sl.Elem())
			return &Val{T: fmt.Sprintf("(%s (select %s (s_arr %s)) (s_off %s) (s_len %s))", vc.bytes2str(), vc.getIn(env.st, hn, hs), x.T, x.T, x.T), Ty: types.Typ[types.String]}
		case "cap":
			x := vc.eval(args[0], env)
			return &Val{T: fmt.Sprintf("(s_cap %s)", x.T), Ty: MathInt}
		case "arr":
			x := vc.eval(args[0], env)
			return &Val{T: fmt.Sprintf("(s_arr %s)", x.T), Ty: MathInt}
		case "off":
			x := vc.eval(args[0], env)
			return &Val{T: fmt.Sprintf("(s_off %s)", x.T), Ty: MathInt}
		case "zero":
			tv := vc.eval(args[0], env)
			if !tv.IsType || tv.TypeV == nil {
				vc.evalFail(env, "zero needs a type")
			}
			return &Val{T: vc.zeroValue(tv.TypeV), Ty: tv.TypeV}
		case "wrap":
			// wrap(x, T): x reduced to the range of integer type T as Go does
			x := vc.eval(args[0], env)
			tv := vc.eval(args[1], env)
			if !tv.IsType || tv.TypeV == nil {
				vc.evalFail(env, "wrap needs an integer type")
			}
			return &Val{T: vc.wrapInt(x.T, tv.TypeV), Ty: MathInt}
		case "raw":
			// raw(s, j): element j (absolute index) of the backing array of slice s
			x := vc.eval(args[0], env)
			j := vc.eval(args[1], env)
			st, ok := x.Ty.Underlying().(*types.Slice)
			if !ok {
				vc.evalFail(env, "raw() needs a slice")
			}
			hn, hs := vc.elemHeap(st.Elem())
			return &Val{T: fmt.Sprintf("(select (select %s (s_arr %s)) %s)", vc.getIn(env.st, hn, hs), x.T, j.T), Ty: st.Elem()}
		case "has":
			m := vc.eval(args[0], env)
			k := vc.eval(args[1], env)
			mt, ok := m.Ty.Underlying().(*types.Map)
			if !ok {
				vc.evalFail(env, "has() needs a map")
			}
			dn, ds, _, _ := vc.mapHeaps(mt)
			// (a nil map has no keys)
			return &Val{T: fmt.Sprintf("(and (not (= %s 0)) (select (select %s %s) %s))", m.T, vc.getIn(env.st, dn, ds), m.T, vc.mapKey(mt, k.T)), Ty: boolT}
		case "fresh":
			x := vc.eval(args[0], env)
			t := x.T
			if vc.sortOf(x.Ty) == "Slice" {
				t = fmt.Sprintf("(s_arr %s)", x.T)
			} else if vc.sortOf(x.Ty) == "Iface" {
				t = fmt.Sprintf("(i_ref %s)", x.T)
			}
			return &Val{T: fmt.Sprintf("(and (> %s 0) (>= %s %s) (< %s %s))", t, t, vc.getIn(env.old, "alloc", "Int"), t, vc.getIn(env.st, "alloc", "Int")), Ty: boolT}
		case "allocated":
			x := vc.eval(args[0], env)
			return &Val{T: fmt.Sprintf("(and (> %s 0) (< %s %s))", x.T, x.T, vc.getIn(env.st, "alloc", "Int")), Ty: boolT}
		case "istype":
			x := vc.eval(args[0], env)
			tv := vc.eval(args[1], env)
			if !tv.IsType {
				vc.evalFail(env, "istype needs a type")
			}
			return &Val{T: vc.tagTest(x.T, tv.TypeV), Ty: boolT}
		case "isptr":
			// istype(x, *T)
			x := vc.eval(args[0], env)
			tv := vc.eval(args[1], env)
			return &Val{T: vc.tagTest(x.T, types.NewPointer(tv.TypeV)), Ty: boolT}
		case "ptrtag":
			// ptrtag(T): the dynamic-type tag of a *T held in an interface
			tv := vc.eval(args[0], env)
			if !tv.IsType || tv.TypeV == nil {
				vc.evalFail(env, "ptrtag needs a type")
			}
			return &Val{T: fmt.Sprintf("%d", vc.typeTag(types.NewPointer(tv.TypeV))), Ty: MathInt}
		case "arrptr":
			// arrptr(s): the reference of the array window that (*[N]T)(s)
			// denotes - the array itself when s starts at offset 0
			x := vc.eval(args[0], env)
			if _, ok := x.Ty.Underlying().(*types.Slice); !ok {
				vc.evalFail(env, "arrptr() needs a slice")
			}
			if !vc.declared["sl2arr"] {
				vc.declare("sl2arr", "(declare-fun sl2arr (Int Int) Int)")
			}
			return &Val{T: fmt.Sprintf("(ite (= (s_off %s) 0) (s_arr %s) (sl2arr (s_arr %s) (s_off %s)))", x.T, x.T, x.T, x.T), Ty: MathInt}
		case "elemat":
			// elemat(T, a, j): element j (absolute index) of the array with
			// reference a among the arrays holding T values - lets a contract
			// state a frame over all arrays ("only this array is written")
			tv := vc.eval(args[0], env)
			if !tv.IsType || tv.TypeV == nil {
				vc.evalFail(env, "elemat needs a type")
			}
			a := vc.eval(args[1], env)
			j := vc.eval(args[2], env)
			hn, hs := vc.elemHeap(tv.TypeV)
			return &Val{T: fmt.Sprintf("(select (select %s %s) %s)", vc.getIn(env.st, hn, hs), a.T, j.T), Ty: tv.TypeV}
		case "toptr":
			// toptr(x, T): the reference x (an integer, e.g. from a generic
			// ghost map) as a *T
			x := vc.eval(args[0], env)
			tv := vc.eval(args[1], env)
			if !tv.IsType || tv.TypeV == nil {
				vc.evalFail(env, "toptr needs a type")
			}
			return &Val{T: x.T, Ty: types.NewPointer(tv.TypeV)}
		case "funcis":
			// funcis(f, name): the function value f is known, at translation
			// time, to be the named function (decided syntactically)
			x := vc.eval(args[0], env)
			name := args[1].Name
			if args[1].Op == "string" {
				name = strings.Trim(args[1].Name, "\"")
			}
			is := x != nil && x.Clo != nil && x.Clo.Fn != nil && (x.Clo.Fn.Name() == name || strings.HasSuffix(x.Clo.Fn.String(), "."+name) || strings.HasSuffix(x.Clo.Fn.String(), "/"+name))
			if is {
				return &Val{T: "true", Ty: boolT}
			}
			return &Val{T: "false", Ty: boolT}
		case "asptr":
			x := vc.eval(args[0], env)
			tv := vc.eval(args[1], env)
			return &Val{T: fmt.Sprintf("(i_ref %s)", x.T), Ty: types.NewPointer(tv.TypeV)}
		case "asiface":
			// the interface value holding pointer x (dynamic type = static type of x)
			x := vc.eval(args[0], env)
			return &Val{T: fmt.Sprintf("(mk_iface %d %s)", vc.typeTag(x.Ty), x.T), Ty: types.NewInterfaceType(nil, nil)}
		case "tag":
			x := vc.eval(args[0], env)
			return &Val{T: fmt.Sprintf("(i_tag %s)", x.T), Ty: MathInt}
		case "ref":
			x := vc.eval(args[0], env)
			if x.Ty != nil && vc.sortOf(x.Ty) == "Int" {
				// a pointer is its own reference
				return &Val{T: x.T, Ty: MathInt}
			}
			return &Val{T: fmt.Sprintf("(i_ref %s)", x.T), Ty: MathInt}
		case "int", "mathint":
			x := vc.eval(args[0], env)
			if vc.sortOf(x.Ty) == "Real" {
				return &Val{T: "(to_int " + x.T + ")", Ty: MathInt}
			}
			return &Val{T: x.T, Ty: MathInt}
		case "trunc":
			// trunc(r): r truncated toward zero, as Go's float-to-integer conversion does
			x := vc.eval(args[0], env)
			if vc.sortOf(x.Ty) != "Real" {
				return &Val{T: x.T, Ty: MathInt}
			}
			return &Val{T: fmt.Sprintf("(ite (>= %s 0.0) (to_int %s) (- (to_int (- %s))))", x.T, x.T, x.T), Ty: MathInt}
		case "real":
			x := vc.eval(args[0], env)
			if vc.sortOf(x.Ty) == "Real" {
				return x
			}
			return &Val{T: "(to_real " + x.T + ")", Ty: types.Typ[types.Float64]}
		case "min", "max":
			a := vc.eval(args[0], env)
			b := vc.eval(args[1], env)
			op := "<="
			if fe.Name == "max" {
				op = ">="
			}
			return &Val{T: fmt.Sprintf("(ite (%s %s %s) %s %s)", op, a.T, b.T, a.T, b.T), Ty: MathInt}
		case "held":
			// held(lockpath) - only meaningful syntactically; treated as true in logic.
			return &Val{T: "true", Ty: boolT}
		case "deref":
			x := vc.eval(args[0], env)
			pt, ok := x.Ty.Underlying().(*types.Pointer)
			if !ok {
				vc.evalFail(env, "deref of non-pointer %s", x.Ty)
			}
			if x.Loc != nil && x.T == "" {
				return vc.loadIn(env.st, x.Loc)
			}
			if ct, isAt := atomicContent(pt.Elem()); isAt {
				hn, hs := vc.cellHeap(pt.Elem())
				return &Val{T: fmt.Sprintf("(select %s %s)", vc.getIn(env.st, hn, hs), x.T), Ty: ct,
					Loc: &Loc{Kind: RCell, Heap: hn, Base: x.T, RootT: pt.Elem()}}
			}
			if at, isArr := pt.Elem().Underlying().(*types.Array); isArr {
				hn, hs := vc.elemHeap(at.Elem())
				return &Val{T: fmt.Sprintf("(select %s %s)", vc.getIn(env.st, hn, hs), x.T), Ty: pt.Elem()}
			}
			if _, isStruct := pt.Elem().Underlying().(*types.Struct); isStruct && !vc.isOpaqueStruct(pt.Elem()) {
				return vc.loadStruct(env.st, x.T, pt.Elem())
			}
			hn, hs := vc.cellHeap(pt.Elem())
			return &Val{T: fmt.Sprintf("(select %s %s)", vc.getIn(env.st, hn, hs), x.T), Ty: pt.Elem(),
				Loc: &Loc{Kind: RCell, Heap: hn, Base: x.T, RootT: pt.Elem()}}
		}
		if p, ok := vc.p.db.Preds[fe.Name]; ok {
			if len(p.Params) != len(args) {
				vc.evalFail(env, "predicate %s expects %d arguments", p.Name, len(p.Params))
			}
			if p.Triggered {
				return vc.applyFpred(p, args, env)
			}
			inner := &Env{vars: map[string]*Val{}, st: env.st, old: env.old, pkg: p.Pkg, imports: p.Imports, where: env.where + " in pred " + p.Name}
			for i, b := range p.Params {
				av := vc.eval(args[i], env)
				pt := vc.resolveType(b.Type, p.Pkg, p.Imports, true)
				if isUntypedNil(av.Ty) {
					av = &Val{T: vc.zeroValue(pt), Ty: pt}
				}
				if vc.sortOf(av.Ty) != vc.sortOf(pt) {
					vc.evalFail(env, "argument %d of %s has sort %s, expected %s", i+1, p.Name, vc.sortOf(av.Ty), vc.sortOf(pt))
				}
				inner.vars[b.Name] = &Val{T: av.T, Ty: pt, Loc: av.Loc}
			}
			return vc.eval(p.Body, inner)
		}
		if f, ok := vc.p.db.Funs[fe.Name]; ok {
			var sorts, ts []string
			for i, b := range f.Params {
				pt := vc.resolveType(b.Type, f.Pkg, f.Imports, true)
				sorts = append(sorts, vc.sortOf(pt))
				if i >= len(args) {
					vc.evalFail(env, "too few arguments to %s", f.Name)
				}
				av := vc.eval(args[i], env)
				if isUntypedNil(av.Ty) {
					av = &Val{T: vc.zeroValue(pt), Ty: pt}
				}
				if vc.sortOf(av.Ty) != vc.sortOf(pt) {
					vc.evalFail(env, "argument %d of %s has sort %s, expected %s", i+1, f.Name, vc.sortOf(av.Ty), vc.sortOf(pt))
				}
				ts = append(ts, av.T)
			}
			rt := vc.resolveType(f.Result, f.Pkg, f.Imports, true)
			name := "sf_" + sanitize(f.Name)
			if !vc.declared[name] {
				vc.declare(name, fmt.Sprintf("(declare-fun %s (%s) %s)", name, strings.Join(sorts, " "), vc.sortOf(rt)))
				vc.pendingAxioms = append(vc.pendingAxioms, f.Name)
			}
			if len(ts) == 0 {
				return &Val{T: name, Ty: rt}
			}
			return &Val{T: fmt.Sprintf("(%s %s)", name, strings.Join(ts, " ")), Ty: rt}
		}
		// Conversion to a named Go type: T(x).
		if tv := vc.tryType(fe, env); tv != nil && len(args) == 1 {
			x := vc.eval(args[0], env)
			return &Val{T: x.T, Ty: tv}
		}
	}
	if fe.Op == "field" {
		if tv := vc.tryType(fe, env); tv != nil && len(args) == 1 {
			x := vc.eval(args[0], env)
			return &Val{T: x.T, Ty: tv}
		}
	}
	vc.evalFail(env, "unknown specification function %s", fe.String())
	return nil
}

func (vc *VC) tryType(e *SExpr, env *Env) (t types.Type) {
	defer func() {
		if r := recover(); r != nil {
			t = nil
		}
	}()
	v := vc.eval(e, env)
	if v.IsType && v.TypeV != nil {
		return v.TypeV
	}
	return nil
}

// tagTest is the formula "interface value x has dynamic type t".
func (vc *VC) tagTest(x string, t types.Type) string {
	if it, ok := t.Underlying().(*types.Interface); ok {
		return vc.implTest(x, t, it)
	}
	return fmt.Sprintf("(= (i_tag %s) %d)", x, vc.typeTag(t))
}

// implTest is the formula "the dynamic type of x implements interface t".
func (vc *VC) implTest(x string, t types.Type, it *types.Interface) string {
	if it.NumMethods() == 0 {
		return fmt.Sprintf("(not (= (i_tag %s) 0))", x)
	}
	key := "impl_" + sanitize(types.TypeString(t, nil))
	if !vc.declared[key] {
		vc.declare(key, fmt.Sprintf("(declare-fun %s (Int) Bool)", key))
		vc.emit("(assert (not (%s 0)))", key)
		vc.ifaceAsserted[key] = t
	}
	vc.emitTagFacts()
	return fmt.Sprintf("(%s (i_tag %s))", key, x)
}

// emitTagFacts states, for every known concrete tag and every interface that
// has been asserted against, whether the type implements the interface.
func (vc *VC) emitTagFacts() {
	for _, key := range sortedKeys(vc.ifaceAsserted) {
		it := vc.ifaceAsserted[key]
		iface := it.Underlying().(*types.Interface)
		for id, ct := range vc.tagTypes {
			fk := fmt.Sprintf("%s/%d", key, id)
			if vc.tagFactsDone[fk] {
				continue
			}
			vc.tagFactsDone[fk] = true
			vc.declared["tagfact:"+fk] = true
			impl := types.Implements(ct, iface)
			if impl {
				vc.emit("(assert (%s %d))", key, id)
			} else {
				vc.emit("(assert (not (%s %d)))", key, id)
			}
		}
	}
}

func (vc *VC) mapLen(st *State, mt *types.Map, m string) string {
	ks, vs := vc.sortOf(mt.Key()), vc.sortOf(mt.Elem())
	name := "maplen_" + sortKey(ks) + "_" + sortKey(vs)
	dn, ds, _, _ := vc.mapHeaps(mt)
	if !vc.declared[name] {
		vc.declare(name, fmt.Sprintf("(declare-fun %s ((Array %s Bool)) Int)", name, ks))
	}
	return fmt.Sprintf("(%s (select %s %s))", name, vc.getIn(st, dn, ds), m)
}

// loadStruct assembles the struct value stored at heap reference ref.
func (vc *VC) loadStruct(st *State, ref string, t types.Type) *Val {
	s := t.Underlying().(*types.Struct)
	sortS := vc.sortOf(t)
	if s.NumFields() == 0 {
		return &Val{T: "mk_" + sortS, Ty: t}
	}
	var parts []string
	for i := 0; i < s.NumFields(); i++ {
		hn, hs := vc.fieldHeap(t, s.Field(i))
		parts = append(parts, fmt.Sprintf("(select %s %s)", vc.getIn(st, hn, hs), ref))
	}
	return &Val{T: "(mk_" + sortS + " " + strings.Join(parts, " ") + ")", Ty: t}
}

// mentionsFun reports whether expression e calls specification function name.
func mentionsFun(e *SExpr, name string) bool {
	if e == nil {
		return false
	}
	if e.Op == "call" && e.Args[0].Op == "ident" && e.Args[0].Name == name {
		return true
	}
	for _, a := range e.Args {
		if mentionsFun(a, name) {
			return true
		}
	}
	return false
}

// flushAxioms asserts the axioms about specification functions that were
// declared since the last flush.
func (vc *VC) flushAxioms() {
	for len(vc.pendingAxioms) > 0 {
		name := vc.pendingAxioms[0]
		vc.pendingAxioms = vc.pendingAxioms[1:]
		for i, ax := range vc.p.db.Axioms {
			if os.Getenv("GOVC_DEBUG") != "" {
				fmt.Fprintf(os.Stderr, "axiom %s for %s: done=%v mentions=%v\n", ax.Name, name, vc.axiomDone[i], mentionsFun(ax.Expr, name))
			}
			if vc.axiomDone[i] || !mentionsFun(ax.Expr, name) {
				continue
			}
			if vc.axiomDone == nil {
				vc.axiomDone = map[int]bool{}
			}
			vc.axiomDone[i] = true
			vc.declLog = append(vc.declLog, fmt.Sprintf("axiom:%d", i))
			func() {
				defer func() {
					if r := recover(); r != nil {
						if ee, ok := r.(evalError); ok {
							vc.errorf("%s:%d: axiom: %s", ax.File, ax.Line, ee.msg)
							return
						}
						panic(r)
					}
				}()
				env := &Env{vars: map[string]*Val{}, st: vc.st, old: vc.st, pkg: ax.Pkg, imports: ax.Imports, where: "axiom " + ax.Name}
				v := vc.eval(ax.Expr, env)
				// an axiom holds everywhere: never sliced away with the block
				// in which the function happened to be mentioned first
				saveG := vc.globalFact
				vc.globalFact = true
				vc.emit("(assert %s)", v.T)
				vc.globalFact = saveG
				vc.used.ExtContracts["axiom "+ax.Name+" ("+ax.Expr.String()+")"] = true
			}()
		}
	}
}

// heapRangeAxiom states once per heap version that every cell holds a value of
// its Go type (entry heaps by typing, later versions because stores write
// wrapped values and havocs are typed).
func (vc *VC) heapRangeAxiom(h string, t types.Type) {
	key := "rangeax:" + h
	if vc.declared[key] {
		return
	}
	if _, _, isInt := intRange(t); !isInt {
		return
	}
	rf := vc.rangeFact(fmt.Sprintf("(select %s r)", h), t)
	if rf == "" {
		return
	}
	vc.declared[key] = true
	vc.declLog = append(vc.declLog, key)
	if vc.macros[h] {
		// a macro (store/ite term) is not a legal pattern
		vc.emit("(assert (forall ((r Int)) %s))", rf)
		return
	}
	vc.emit("(assert (forall ((r Int)) (! %s :pattern ((select %s r)))))", rf, h)
}

// conjuncts splits a clause at its top-level && into separate clauses, so
// that each conjunct becomes its own (smaller) obligation.
func conjuncts(cl *Clause) []*Clause {
	var out []*Clause
	var walk func(e *SExpr)
	walk = func(e *SExpr) {
		if e.Op == "binop" && e.Name == "&&" {
			walk(e.Args[0])
			walk(e.Args[1])
			return
		}
		out = append(out, &Clause{Label: cl.Label, Expr: e, Src: e.String(), File: cl.File, Line: cl.Line})
	}
	walk(cl.Expr)
	if len(out) == 1 {
		return []*Clause{cl}
	}
	for i, c := range out {
		if c.Label != "" {
			c.Label = fmt.Sprintf("%s.%d", cl.Label, i+1)
		} else {
			c.Label = fmt.Sprintf("c%d", i+1)
		}
	}
	return out
}


// fpredDef is the translation of an fpred: a declared function whose first
// arguments are the storages its body reads.  The definition is given by one
// axiom per tuple of storage versions the function is applied to (quantifying
// over storages themselves makes the solvers give up).
type fpredDef struct {
	fname  string
	heaps  []string
	hsorts []string
	hvars  []string
	pvars  []string
	psorts []string
	ptypes []types.Type
	rtype  types.Type
	body   string
	uses   []*PredSpec // fpreds applied inside the body
}

func (vc *VC) fpredDefinition(p *PredSpec, env *Env) *fpredDef {
	if vc.fpreds == nil {
		vc.fpreds = map[string]*fpredDef{}
	}
	fname := "fp_" + sanitize(p.Name)
	if d, ok := vc.fpreds[p.Name]; ok && vc.declared[fname] {
		return d
	}
	sym := &symState{}
	st := newState()
	st.sym = sym
	inner := &Env{vars: map[string]*Val{}, st: st, old: st, pkg: p.Pkg, imports: p.Imports, where: env.where + " in fpred " + p.Name}
	d := &fpredDef{fname: fname}
	for _, b := range p.Params {
		pt := vc.resolveType(b.Type, p.Pkg, p.Imports, true)
		d.ptypes = append(d.ptypes, pt)
		v := "pp_" + sanitize(p.Name) + "_" + sanitize(b.Name)
		d.pvars = append(d.pvars, v)
		d.psorts = append(d.psorts, vc.sortOf(pt))
		inner.vars[b.Name] = &Val{T: v, Ty: pt}
	}
	saveUses := vc.fpredUses
	vc.fpredUses = nil
	vc.noEmit++
	body := vc.eval(p.Body, inner)
	vc.noEmit--
	d.uses = vc.fpredUses
	vc.fpredUses = saveUses
	d.rtype = body.Ty
	d.body = body.T
	d.heaps, d.hsorts, d.hvars = sym.names, sym.sorts, sym.vars
	sorts := append(append([]string{}, d.hsorts...), d.psorts...)
	vc.declare(fname, fmt.Sprintf("(declare-fun %s (%s) %s)", fname, strings.Join(sorts, " "), vc.sortOf(body.Ty)))
	vc.fpreds[p.Name] = d
	return d
}

// fpredInstance emits the definitional axiom of p for one tuple of storage
// versions (given per storage name).
func (vc *VC) fpredInstance(p *PredSpec, d *fpredDef, heapTerm func(name, sort string) string) []string {
	var hts []string
	for i, h := range d.heaps {
		hts = append(hts, heapTerm(h, d.hsorts[i]))
	}
	key := "fpinst:" + d.fname + " " + strings.Join(hts, " ")
	if vc.declared[key] {
		return hts
	}
	body := d.body
	for i := len(d.hvars) - 1; i >= 0; i-- {
		body = replaceWord(body, d.hvars[i], hts[i])
	}
	app := d.fname
	args := append(append([]string{}, hts...), d.pvars...)
	if len(args) > 0 {
		app = fmt.Sprintf("(%s %s)", d.fname, strings.Join(args, " "))
	}
	var ax string
	if len(d.pvars) > 0 {
		var binders []string
		for i, v := range d.pvars {
			binders = append(binders, fmt.Sprintf("(%s %s)", v, d.psorts[i]))
		}
		ax = fmt.Sprintf("(assert (forall (%s) (! (= %s %s) :pattern (%s))))", strings.Join(binders, " "), app, body, app)
	} else {
		ax = fmt.Sprintf("(assert (= %s %s))", app, body)
	}
	saveG, saveN := vc.globalFact, vc.noEmit
	vc.globalFact, vc.noEmit = true, 0
	vc.declare(key, ax)
	vc.globalFact, vc.noEmit = saveG, saveN
	for _, u := range d.uses {
		ud := vc.fpreds[u.Name]
		if ud != nil {
			vc.fpredInstance(u, ud, heapTerm)
		}
	}
	return hts
}

func replaceWord(s, w, by string) string {
	var b strings.Builder
	for i := 0; i < len(s); {
		j := strings.Index(s[i:], w)
		if j < 0 {
			b.WriteString(s[i:])
			break
		}
		j += i
		before := j == 0 || s[j-1] == ' ' || s[j-1] == '('
		after := j+len(w) == len(s) || s[j+len(w)] == ' ' || s[j+len(w)] == ')'
		b.WriteString(s[i:j])
		if before && after {
			b.WriteString(by)
		} else {
			b.WriteString(w)
		}
		i = j + len(w)
	}
	return b.String()
}

func (vc *VC) applyFpred(p *PredSpec, args []*SExpr, env *Env) *Val {
	if len(p.Params) != len(args) {
		vc.evalFail(env, "predicate %s expects %d arguments", p.Name, len(p.Params))
	}
	d := vc.fpredDefinition(p, env)
	var ts []string
	if env.st.sym != nil {
		// inside the body of another fpred: the storages are its bound names
		for i, h := range d.heaps {
			ts = append(ts, vc.getIn(env.st, h, d.hsorts[i]))
		}
		vc.fpredUses = append(vc.fpredUses, p)
	} else {
		ts = vc.fpredInstance(p, d, func(name, sort string) string { return vc.getIn(env.st, name, sort) })
	}
	for i := range p.Params {
		av := vc.eval(args[i], env)
		pt := d.ptypes[i]
		if isUntypedNil(av.Ty) {
			av = &Val{T: vc.zeroValue(pt), Ty: pt}
		}
		if vc.sortOf(av.Ty) != vc.sortOf(pt) {
			vc.evalFail(env, "argument %d of %s has sort %s, expected %s", i+1, p.Name, vc.sortOf(av.Ty), vc.sortOf(pt))
		}
		ts = append(ts, av.T)
	}
	if len(ts) == 0 {
		return &Val{T: d.fname, Ty: d.rtype}
	}
	return &Val{T: fmt.Sprintf("(%s %s)", d.fname, strings.Join(ts, " ")), Ty: d.rtype}
}

var flatTermRe = regexp.MustCompile(`\((?:select|fp_[^\s()]+|sf_[^\s()]+) [^()]*\)`)

// refPatterns chooses explicit triggers for a quantifier whose bound variables
// are all references: the flat terms (field reads, ghost-map reads, spec
// function applications) that mention them.  Without this the solver may pick
// a single large trigger that never matches.
func refPatterns(body string, qnames []string, allRefs bool) string {
	if !allRefs || len(qnames) == 0 {
		return ""
	}
	seen := map[string]bool{}
	var terms []string
	for _, m := range flatTermRe.FindAllString(body, -1) {
		if seen[m] {
			continue
		}
		for _, q := range qnames {
			if containsWord(m, q) {
				seen[m] = true
				terms = append(terms, m)
				break
			}
		}
	}
	if len(terms) == 0 {
		return ""
	}
	var pats []string
	if len(qnames) == 1 {
		for i, t := range terms {
			if i >= 6 {
				break
			}
			pats = append(pats, ":pattern ("+t+")")
		}
		return strings.Join(pats, " ")
	}
	// several variables: one multi-pattern with a term for each variable
	var multi []string
	for _, q := range qnames {
		found := ""
		for _, t := range terms {
			if containsWord(t, q) {
				found = t
				break
			}
		}
		if found == "" {
			return ""
		}
		dup := false
		for _, m := range multi {
			if m == found {
				dup = true
			}
		}
		if !dup {
			multi = append(multi, found)
		}
	}
	return ":pattern (" + strings.Join(multi, " ") + ")"
}

func containsWord(s, w string) bool {
	for i := 0; ; {
		j := strings.Index(s[i:], w)
		if j < 0 {
			return false
		}
		j += i
		before := j == 0 || s[j-1] == ' ' || s[j-1] == '('
		after := j+len(w) == len(s) || s[j+len(w)] == ' ' || s[j+len(w)] == ')'
		if before && after {
			return true
		}
		i = j + len(w)
	}
}


// selectPatterns chooses triggers for a quantifier with a single bound
// variable that is used as a map key or ghost-map index: the terms
// (select A q) in which A does not mention any bound variable.  Without this
// the solver tends to pick the range guard (slen q) as the trigger.
// indexPatterns (per property): also take slice element reads
// (select (select E arr) (+ off q)) as triggers.
var indexPatterns bool

// indexReads finds the slice element reads (select (select E arr) (+ off q))
// indexed by bound variable q in body.
func indexReads(body, q string) []string {
	var out []string
	seen := map[string]bool{}
	needle2 := " " + q + "))"
	for i := 0; ; {
		j := strings.Index(body[i:], needle2)
		if j < 0 {
			break
		}
		end := i + j + len(needle2)
		depth, start := 0, -1
		for k := end - 1; k >= 0; k-- {
			if body[k] == ')' {
				depth++
			} else if body[k] == '(' {
				depth--
				if depth == 0 {
					start = k
					break
				}
			}
		}
		i = end
		if start < 0 {
			continue
		}
		t := body[start:end]
		if !strings.HasPrefix(t, "(select (select ") || seen[t] {
			continue
		}
		inner := t[len("(select ") : len(t)-len(needle2)]
		if k := strings.LastIndex(inner, " (+ "); k < 0 || strings.Contains(inner, "q_") || strings.Contains(inner, "(ite ") {
			continue
		}
		seen[t] = true
		out = append(out, t)
	}
	return out
}

func selectPatterns(body string, qnames []string) string {
	if indexPatterns && len(qnames) == 2 {
		a, b := indexReads(body, qnames[0]), indexReads(body, qnames[1])
		if len(a) > 0 && len(b) > 0 {
			return ":pattern (" + a[0] + " " + b[0] + ")"
		}
	}
	if len(qnames) != 1 {
		return ""
	}
	q := qnames[0]
	seen := map[string]bool{}
	var pats []string
	if indexPatterns {
		needle2 := " " + q + "))"
		for i := 0; ; {
			j := strings.Index(body[i:], needle2)
			if j < 0 {
				break
			}
			end := i + j + len(needle2)
			depth, start := 0, -1
			for k := end - 1; k >= 0; k-- {
				if body[k] == ')' {
					depth++
				} else if body[k] == '(' {
					depth--
					if depth == 0 {
						start = k
						break
					}
				}
			}
			i = end
			if start < 0 {
				continue
			}
			t := body[start:end]
			if !strings.HasPrefix(t, "(select (select ") || seen[t] {
				continue
			}
			inner := t[len("(select ") : len(t)-len(needle2)]
			// inner = "(select E arr) (+ off"
			if k := strings.LastIndex(inner, " (+ "); k < 0 || strings.Contains(inner, "q_") || strings.Contains(inner, "(ite ") {
				continue
			}
			seen[t] = true
			pats = append(pats, ":pattern ("+t+")")
			if len(pats) >= 4 {
				break
			}
		}
	}
	needle := " " + q + ")"
	for i := 0; ; {
		j := strings.Index(body[i:], needle)
		if j < 0 {
			break
		}
		end := i + j + len(needle) // one past the closing paren
		// walk back to the matching open paren
		depth := 0
		start := -1
		for k := end - 1; k >= 0; k-- {
			if body[k] == ')' {
				depth++
			} else if body[k] == '(' {
				depth--
				if depth == 0 {
					start = k
					break
				}
			}
		}
		i = end
		if start < 0 {
			continue
		}
		t := body[start:end]
		if !strings.HasPrefix(t, "(select ") || seen[t] {
			continue
		}
		inner := t[len("(select ") : len(t)-len(needle)]
		if strings.Contains(inner, "q_") || strings.Contains(inner, "(ite ") || containsWord(inner, q) {
			continue
		}
		seen[t] = true
		pats = append(pats, ":pattern ("+t+")")
		if len(pats) >= 6 {
			break
		}
	}
	return strings.Join(pats, " ")
}

func isArrayType(t types.Type) bool {
	if t == nil {
		return false
	}
	if _, ok := t.(*GhostArr); ok {
		return false
	}
	_, ok := t.Underlying().(*types.Array)
	return ok
}

// derefIn is the value behind pointer p in the state of env (as deref(p)).
func (vc *VC) derefIn(env *Env, p *Val) *Val {
	pt, ok := p.Ty.Underlying().(*types.Pointer)
	if !ok {
		vc.evalFail(env, "deref of non-pointer %s", p.Ty)
	}
	if p.Loc != nil && p.T == "" {
		return vc.loadIn(env.st, p.Loc)
	}
	if ct, isAt := atomicContent(pt.Elem()); isAt {
		hn, hs := vc.cellHeap(pt.Elem())
		return &Val{T: fmt.Sprintf("(select %s %s)", vc.getIn(env.st, hn, hs), p.T), Ty: ct}
	}
	if at, isArr := pt.Elem().Underlying().(*types.Array); isArr {
		hn, hs := vc.elemHeap(at.Elem())
		return &Val{T: fmt.Sprintf("(select %s %s)", vc.getIn(env.st, hn, hs), p.T), Ty: pt.Elem()}
	}
	if _, isStruct := pt.Elem().Underlying().(*types.Struct); isStruct && !vc.isOpaqueStruct(pt.Elem()) {
		return vc.loadStruct(env.st, p.T, pt.Elem())
	}
	hn, hs := vc.cellHeap(pt.Elem())
	return &Val{T: fmt.Sprintf("(select %s %s)", vc.getIn(env.st, hn, hs), p.T), Ty: pt.Elem()}
}

package main

// Go type -> SMT sort mapping, heap naming, zero values, range constraints.

import (
	"fmt"
	"go/types"
	"math/big"
	"sort"
	"strings"
)

// GhostArr is the type of a ghost map: a total SMT array.
type GhostArr struct{ K, V types.Type }

func (g *GhostArr) Underlying() types.Type { return g }
func (g *GhostArr) String() string         { return "ghostmap[" + g.K.String() + "]" + g.V.String() }

// MathInt is the type of unbounded specification integers.
var MathInt types.Type = types.Typ[types.UntypedInt]

func isMathInt(t types.Type) bool {
	b, ok := t.(*types.Basic)
	return ok && (b.Kind() == types.UntypedInt || b.Kind() == types.UntypedRune)
}

func sanitize(s string) string {
	var sb strings.Builder
	for _, r := range s {
		switch {
		case r >= 'a' && r <= 'z', r >= 'A' && r <= 'Z', r >= '0' && r <= '9', r == '_', r == '.':
			sb.WriteRune(r)
		case r == '/':
			sb.WriteString("_")
		case r == '*':
			sb.WriteString("ptr_")
		case r == '[':
			sb.WriteString("_l_")
		case r == ']':
			sb.WriteString("_r_")
		case r == ' ':
		default:
			sb.WriteString("_")
		}
	}
	return sb.String()
}

// shortTypeName gives a compact, unique, SMT-safe name for a named type.
func shortTypeName(t types.Type) string {
	s := types.TypeString(t, func(p *types.Package) string {
		path := p.Path()
		path = strings.TrimPrefix(path, "github.com/AdguardTeam/AdGuardDNS/internal/")
		path = strings.TrimPrefix(path, "github.com/AdguardTeam/")
		path = strings.TrimPrefix(path, "github.com/")
		return path
	})
	return sanitize(s)
}

// atomicSort maps the sync/atomic value types to the sort of their content.
func atomicContent(t types.Type) (types.Type, bool) {
	n, ok := t.(*types.Named)
	if !ok || n.Obj().Pkg() == nil || n.Obj().Pkg().Path() != "sync/atomic" {
		return nil, false
	}
	switch n.Obj().Name() {
	case "Bool":
		return types.Typ[types.Bool], true
	case "Int32":
		return types.Typ[types.Int32], true
	case "Int64":
		return types.Typ[types.Int64], true
	case "Uint32":
		return types.Typ[types.Uint32], true
	case "Uint64":
		return types.Typ[types.Uint64], true
	case "Pointer":
		if n.TypeArgs() != nil && n.TypeArgs().Len() == 1 {
			return types.NewPointer(n.TypeArgs().At(0)), true
		}
	}
	return nil, false
}

func (vc *VC) isOpaqueStruct(t types.Type) bool {
	n, ok := t.(*types.Named)
	if !ok {
		// anonymous struct: transparent
		return false
	}
	if _, ok := atomicContent(t); ok {
		return false
	}
	key := n.Obj().Name()
	if n.Obj().Pkg() != nil {
		key = n.Obj().Pkg().Path() + "." + n.Obj().Name()
	}
	if vc.p.db.Opaque[key] {
		return true
	}
	if n.Obj().Pkg() == nil {
		return true
	}
	path := n.Obj().Pkg().Path()
	if strings.HasPrefix(path, "github.com/AdguardTeam/AdGuardDNS") {
		return false
	}
	if path == "github.com/miekg/dns" || strings.HasPrefix(path, "github.com/AdguardTeam/golibs") {
		st := n.Underlying().(*types.Struct)
		for i := 0; i < st.NumFields(); i++ {
			if st.Field(i).Exported() {
				return false
			}
		}
		// golibs generic containers are transparent (RingBuffer is verified).
		if strings.HasSuffix(path, "/container") {
			return false
		}
		return true
	}
	// other dependencies: a struct with exported fields is addressed field by
	// field by the repository's code (composite literals, field reads), so it
	// is transparent; types that only offer methods stay opaque values
	if st, ok := n.Underlying().(*types.Struct); ok {
		for i := 0; i < st.NumFields(); i++ {
			if st.Field(i).Exported() {
				return false
			}
		}
	}
	return true
}

// sortOf returns the SMT sort of values of Go type t, declaring datatypes on
// demand.
func (vc *VC) sortOf(t types.Type) string {
	if ga, ok := t.(*GhostArr); ok {
		return "(Array " + vc.sortOf(ga.K) + " " + vc.sortOf(ga.V) + ")"
	}
	if c, ok := atomicContent(t); ok {
		return vc.sortOf(c)
	}
	switch u := t.Underlying().(type) {
	case *types.Basic:
		switch {
		case u.Info()&types.IsBoolean != 0:
			return "Bool"
		case u.Info()&types.IsInteger != 0:
			return "Int"
		case u.Info()&types.IsString != 0:
			return "Str"
		case u.Info()&types.IsFloat != 0:
			return "Real"
		case u.Kind() == types.UnsafePointer:
			return "Int"
		case u.Kind() == types.UntypedNil:
			return "Int"
		}
		return "Int"
	case *types.Pointer, *types.Map, *types.Chan, *types.Signature:
		return "Int"
	case *types.Slice:
		return "Slice"
	case *types.Interface:
		return "Iface"
	case *types.Array:
		return "(Array Int " + vc.sortOf(u.Elem()) + ")"
	case *types.Struct:
		if vc.isOpaqueStruct(t) {
			name := "O_" + shortTypeName(t)
			if !vc.declared[name] {
				vc.declare(name, "(declare-sort "+name+" 0)")
			}
			return name
		}
		return vc.structSort(t, u)
	case *types.Tuple:
		return "Tuple"
	case *types.TypeParam:
		return "Int"
	}
	return "Int"
}

func (vc *VC) structName(t types.Type) string {
	if _, ok := t.(*types.Named); ok {
		return shortTypeName(t)
	}
	// anonymous struct
	return "anon_" + sanitize(t.String())
}

func (vc *VC) structSort(t types.Type, st *types.Struct) string {
	name := "S_" + vc.structName(t)
	if vc.declared[name] {
		return name
	}
	if vc.p.structTypes == nil {
		vc.p.structTypes = map[string]types.Type{}
	}
	vc.p.structTypes[name] = t
	// Declare field sorts first.
	var fields []string
	for i := 0; i < st.NumFields(); i++ {
		f := st.Field(i)
		fields = append(fields, fmt.Sprintf("(%s %s)", vc.accessor(t, f.Name()), vc.sortOf(f.Type())))
	}
	if len(fields) == 0 {
		vc.declare(name, fmt.Sprintf("(declare-datatypes ((%s 0)) (((mk_%s))))", name, name))
	} else {
		vc.declare(name, fmt.Sprintf("(declare-datatypes ((%s 0)) (((mk_%s %s))))", name, name, strings.Join(fields, " ")))
	}
	return name
}

func (vc *VC) accessor(structT types.Type, field string) string {
	return "f_" + vc.structName(structT) + "_" + sanitize(field)
}

// heapNameField is the name of the heap array of a field of a heap struct.
func (vc *VC) heapNameField(structT types.Type, field string) string {
	return "H." + vc.structName(structT) + "." + sanitize(field)
}

func sortKey(sort string) string {
	return sanitize(strings.NewReplacer("(", "", ")", "", " ", "_").Replace(sort))
}

// zeroValue returns the SMT term of the zero value of t.
func (vc *VC) zeroValue(t types.Type) string {
	if c, ok := atomicContent(t); ok {
		return vc.zeroValue(c)
	}
	if ga, ok := t.(*GhostArr); ok {
		return fmt.Sprintf("((as const %s) %s)", vc.sortOf(t), vc.zeroValue(ga.V))
	}
	switch u := t.Underlying().(type) {
	case *types.Basic:
		switch {
		case u.Info()&types.IsBoolean != 0:
			return "false"
		case u.Info()&types.IsInteger != 0:
			return "0"
		case u.Info()&types.IsString != 0:
			return vc.strLit("")
		case u.Info()&types.IsFloat != 0:
			return "0.0"
		}
		return "0"
	case *types.Pointer, *types.Map, *types.Chan, *types.Signature:
		return "0"
	case *types.Slice:
		return "(mk_slice 0 0 0 0)"
	case *types.Interface:
		return "(mk_iface 0 0)"
	case *types.Array:
		return fmt.Sprintf("((as const %s) %s)", vc.sortOf(t), vc.zeroValue(u.Elem()))
	case *types.Struct:
		if vc.isOpaqueStruct(t) {
			s := vc.sortOf(t)
			name := "zero_" + s
			if !vc.declared[name] {
				vc.declare(name, fmt.Sprintf("(declare-const %s %s)", name, s))
			}
			return name
		}
		s := vc.structSort(t, u)
		if u.NumFields() == 0 {
			return "mk_" + s
		}
		var fs []string
		for i := 0; i < u.NumFields(); i++ {
			fs = append(fs, vc.zeroValue(u.Field(i).Type()))
		}
		return "(mk_" + s + " " + strings.Join(fs, " ") + ")"
	}
	return "0"
}

// intRange returns the bounds of an integer type; ok is false for non-integers
// and for mathematical ints.
func intRange(t types.Type) (lo, hi *big.Int, ok bool) {
	if isMathInt(t) {
		return nil, nil, false
	}
	b, isB := t.Underlying().(*types.Basic)
	if !isB || b.Info()&types.IsInteger == 0 {
		return nil, nil, false
	}
	bits := 64
	signed := true
	switch b.Kind() {
	case types.Int8:
		bits = 8
	case types.Int16:
		bits = 16
	case types.Int32:
		bits = 32
	case types.Int64, types.Int:
		bits = 64
	case types.Uint8:
		bits, signed = 8, false
	case types.Uint16:
		bits, signed = 16, false
	case types.Uint32:
		bits, signed = 32, false
	case types.Uint64, types.Uint, types.Uintptr:
		bits, signed = 64, false
	default:
		return nil, nil, false
	}
	one := big.NewInt(1)
	if signed {
		hi = new(big.Int).Sub(new(big.Int).Lsh(one, uint(bits-1)), one)
		lo = new(big.Int).Neg(new(big.Int).Lsh(one, uint(bits-1)))
	} else {
		lo = big.NewInt(0)
		hi = new(big.Int).Sub(new(big.Int).Lsh(one, uint(bits)), one)
	}
	return lo, hi, true
}

func smtInt(b *big.Int) string {
	if b.Sign() < 0 {
		return "(- " + new(big.Int).Neg(b).String() + ")"
	}
	return b.String()
}

// rangeFact returns an SMT formula constraining term (of Go type t) to the
// values a Go value of that type can take; "" if there is nothing to say.
func (vc *VC) rangeFact(term string, t types.Type) string {
	if c, ok := atomicContent(t); ok {
		return vc.rangeFact(term, c)
	}
	if _, ok := t.(*GhostArr); ok {
		return ""
	}
	if lo, hi, ok := intRange(t); ok {
		return fmt.Sprintf("(and (<= %s %s) (<= %s %s))", smtInt(lo), term, term, smtInt(hi))
	}
	switch u := t.Underlying().(type) {
	case *types.Pointer, *types.Map, *types.Chan, *types.Signature:
		return fmt.Sprintf("(<= 0 %s)", term)
	case *types.Slice:
		return fmt.Sprintf("(and (<= 0 (s_arr %s)) (<= 0 (s_off %s)) (<= 0 (s_len %s)) (<= (s_len %s) (s_cap %s)) (<= (+ (s_off %s) (s_cap %s)) 9223372036854775807) (=> (= (s_arr %s) 0) (= (s_cap %s) 0)))", term, term, term, term, term, term, term, term, term)
	case *types.Interface:
		return fmt.Sprintf("(and (<= 0 (i_tag %s)) (<= 0 (i_ref %s)) (=> (= (i_tag %s) 0) (= (i_ref %s) 0)))", term, term, term, term)
	case *types.Basic:
		if u.Info()&types.IsString != 0 {
			return fmt.Sprintf("(and (<= 0 (slen %s)) (<= (slen %s) 9223372036854775807))", term, term)
		}
	case *types.Struct:
		if vc.isOpaqueStruct(t) {
			return ""
		}
		var parts []string
		for i := 0; i < u.NumFields(); i++ {
			f := u.Field(i)
			if rf := vc.rangeFact(fmt.Sprintf("(%s %s)", vc.accessor(t, f.Name()), term), f.Type()); rf != "" {
				parts = append(parts, rf)
			}
		}
		if len(parts) == 0 {
			return ""
		}
		return "(and " + strings.Join(parts, " ") + ")"
	}
	return ""
}

// wrapInt wraps a mathematical result into the range of integer type t with
// Go's two's-complement semantics.
func (vc *VC) wrapInt(term string, t types.Type) string {
	lo, hi, ok := intRange(t)
	if !ok {
		return term
	}
	mod := new(big.Int).Add(new(big.Int).Sub(hi, lo), big.NewInt(1))
	if lo.Sign() == 0 {
		return fmt.Sprintf("(mod %s %s)", term, mod.String())
	}
	half := new(big.Int).Neg(lo)
	return fmt.Sprintf("(- (mod (+ %s %s) %s) %s)", term, half.String(), mod.String(), half.String())
}

// typeTag returns the integer tag of a concrete dynamic type.
func (vc *VC) typeTag(t types.Type) int {
	key := types.TypeString(t, nil)
	if id, ok := vc.tags[key]; ok {
		return id
	}
	id := len(vc.tags) + 1
	vc.tags[key] = id
	vc.tagTypes[id] = t
	return id
}

func sortedKeys[V any](m map[string]V) []string {
	ks := make([]string, 0, len(m))
	for k := range m {
		ks = append(ks, k)
	}
	sort.Strings(ks)
	return ks
}

// allocFact states that the references held by term (of Go type t) are nil or
// allocated in allocation state a.
func (vc *VC) allocFact(term string, t types.Type, a string) string {
	if _, ok := t.(*GhostArr); ok {
		return ""
	}
	if _, ok := atomicContent(t); ok {
		return ""
	}
	switch t.Underlying().(type) {
	case *types.Pointer, *types.Map, *types.Chan:
		return fmt.Sprintf("(< %s %s)", term, a)
	case *types.Slice:
		return fmt.Sprintf("(< (s_arr %s) %s)", term, a)
	case *types.Interface:
		return fmt.Sprintf("(< (i_ref %s) %s)", term, a)
	case *types.Struct:
		if vc.isOpaqueStruct(t) {
			return ""
		}
		u := t.Underlying().(*types.Struct)
		var parts []string
		for i := 0; i < u.NumFields(); i++ {
			f := u.Field(i)
			if af := vc.allocFact(fmt.Sprintf("(%s %s)", vc.accessor(t, f.Name()), term), f.Type(), a); af != "" {
				parts = append(parts, af)
			}
		}
		if len(parts) == 0 {
			return ""
		}
		return "(and " + strings.Join(parts, " ") + ")"
	}
	return ""
}

// valueFacts assumes the range and allocation facts of a value that enters
// the computation from outside (parameter, load, call result).
func (vc *VC) valueFacts(term string, t types.Type) {
	vc.assume(vc.rangeFact(term, t))
	vc.assume(vc.allocFact(term, t, vc.get("alloc", "Int")))
}

package main

// Symbolic execution of go/ssa function bodies into the SMT script: block
// reachability, phi merging, loops cut by invariants, instruction semantics.

import (
	"fmt"
	"os"
	"regexp"
	"go/ast"
	"go/constant"
	"go/token"
	"go/types"
	"sort"
	"strconv"
	"strings"

	"golang.org/x/tools/go/ssa"
)

type blockOut struct {
	st    *State
	reach string
}

type loopInfo struct {
	header  *ssa.BasicBlock
	body    map[*ssa.BasicBlock]bool
	back    []*ssa.BasicBlock // sources of back edges
	ordinal int
}

type deferRec struct {
	call  *ssa.CallCommon
	instr *ssa.Defer
	block *ssa.BasicBlock
	reach string
}

type retPoint struct {
	reach   string
	st      *State
	results []*Val
}

type Frame struct {
	dbgAddr  map[string]*ssa.Alloc // address-taken locals by source name
	fn       *ssa.Function
	hypIDs   map[*ssa.BasicBlock]int // staged loops: id of the loop at each header
	spec     *FuncSpec
	vals     map[ssa.Value]*Val
	parent   *Frame
	cur      *Frame
	ends     map[*ssa.BasicBlock]*blockOut
	loops    map[*ssa.BasicBlock]*loopInfo
	defers   []*deferRec
	rets     []*retPoint
	isTop    bool
	names    map[string]*Val // parameter / free variable names for specs
	entrySt  *State
	onReturn func(fr *Frame, results []*Val, pos token.Pos)
	private  map[*ssa.Alloc]bool
	dbg      map[string][]ssa.Value
	curBlock *ssa.BasicBlock
	discover map[*ssa.BasicBlock]map[string]bool
	discHeader map[*ssa.BasicBlock]*State
	lets     map[string]*Val
}

func analyzeLoops(fn *ssa.Function) map[*ssa.BasicBlock]*loopInfo {
	loops := map[*ssa.BasicBlock]*loopInfo{}
	for _, b := range fn.Blocks {
		for _, s := range b.Succs {
			if s.Dominates(b) {
				li := loops[s]
				if li == nil {
					li = &loopInfo{header: s, body: map[*ssa.BasicBlock]bool{s: true}}
					loops[s] = li
				}
				li.back = append(li.back, b)
				// natural loop: nodes that reach b without passing through s
				stack := []*ssa.BasicBlock{b}
				for len(stack) > 0 {
					n := stack[len(stack)-1]
					stack = stack[:len(stack)-1]
					if li.body[n] {
						continue
					}
					li.body[n] = true
					stack = append(stack, n.Preds...)
				}
			}
		}
	}
	var hs []*ssa.BasicBlock
	for h := range loops {
		hs = append(hs, h)
	}
	sort.Slice(hs, func(i, j int) bool { return hs[i].Index < hs[j].Index })
	for i, h := range hs {
		loops[h].ordinal = i + 1
	}
	return loops
}

// forwardOrder returns the blocks in reverse post-order of the CFG without
// back edges.
func forwardOrder(fn *ssa.Function, loops map[*ssa.BasicBlock]*loopInfo) []*ssa.BasicBlock {
	seen := map[*ssa.BasicBlock]bool{}
	var post []*ssa.BasicBlock
	var visit func(b *ssa.BasicBlock)
	visit = func(b *ssa.BasicBlock) {
		seen[b] = true
		for _, s := range b.Succs {
			if s.Dominates(b) {
				continue // back edge
			}
			if !seen[s] {
				visit(s)
			}
		}
		post = append(post, b)
	}
	if len(fn.Blocks) > 0 {
		visit(fn.Blocks[0])
	}
	for i, j := 0, len(post)-1; i < j; i, j = i+1, j-1 {
		post[i], post[j] = post[j], post[i]
	}
	return post
}

func (vc *VC) newFrame(fn *ssa.Function, parent *Frame) *Frame {
	fr := &Frame{fn: fn, vals: map[ssa.Value]*Val{}, parent: parent, ends: map[*ssa.BasicBlock]*blockOut{},
		names: map[string]*Val{}, private: map[*ssa.Alloc]bool{}, dbg: map[string][]ssa.Value{}, lets: map[string]*Val{}}
	fr.loops = analyzeLoops(fn)
	fr.spec = vc.p.specFor(fn)
	for _, b := range fn.Blocks {
		for _, in := range b.Instrs {
			if a, ok := in.(*ssa.Alloc); ok {
				fr.private[a] = vc.isPrivateAlloc(a)
			}
			if d, ok := in.(*ssa.DebugRef); ok {
				if id, ok := d.Expr.(*ast.Ident); ok && !d.IsAddr {
					fr.dbg[id.Name] = append(fr.dbg[id.Name], d.X)
				} else if ok && d.IsAddr {
					if a, isAlloc := d.X.(*ssa.Alloc); isAlloc && a.Comment == id.Name {
						if fr.dbgAddr == nil {
							fr.dbgAddr = map[string]*ssa.Alloc{}
						}
						if _, dup := fr.dbgAddr[id.Name]; !dup {
							fr.dbgAddr[id.Name] = a
						}
					}
				}
			}
		}
	}
	return fr
}

// isPrivateAlloc reports whether an allocation is only accessed by loads and
// stores inside this function (and closures that are executed inline), so
// that calls cannot observe or change it.
func (vc *VC) isPrivateAlloc(a *ssa.Alloc) bool {
	var check func(v ssa.Value, depth int) bool
	check = func(v ssa.Value, depth int) bool {
		if depth > 6 {
			return false
		}
		refs := v.Referrers()
		if refs == nil {
			return false
		}
		for _, r := range *refs {
			switch r := r.(type) {
			case *ssa.UnOp:
				if r.Op != token.MUL {
					return false
				}
			case *ssa.Store:
				if r.Val == v {
					return false
				}
			case *ssa.FieldAddr:
				if !check(r, depth+1) {
					return false
				}
			case *ssa.IndexAddr:
				if !check(r, depth+1) {
					return false
				}
			case *ssa.DebugRef:
			case *ssa.MakeClosure:
				if !vc.closureIsInlined(r) {
					return false
				}
				// inside the closure the free variable must be private too
				for i, b := range r.Bindings {
					if b == v {
						fv := r.Fn.(*ssa.Function).FreeVars[i]
						if !check(fv, depth+1) {
							return false
						}
					}
				}
			default:
				return false
			}
		}
		return true
	}
	return check(a, 0)
}

// closureIsInlined reports whether a closure is only deferred, called
// directly, or handed to an `inline` function.
func (vc *VC) closureIsInlined(mc *ssa.MakeClosure) bool {
	refs := mc.Referrers()
	if refs == nil {
		return false
	}
	for _, r := range *refs {
		switch r := r.(type) {
		case *ssa.Defer:
			if r.Call.Value != mc {
				return false
			}
		case *ssa.Call:
			if r.Call.Value == mc {
				continue
			}
			callee := r.Call.StaticCallee()
			if callee == nil {
				return false
			}
			sp := vc.p.specFor(callee)
			if sp == nil || !sp.Inline {
				return false
			}
		case *ssa.DebugRef:
		default:
			return false
		}
	}
	return true
}

// runBody executes the body of fr.fn from the current state.
func (vc *VC) runBody(fr *Frame) {
	if vc.top == nil {
		vc.top = fr
	}
	prevCur := vc.top.cur
	vc.top.cur = fr
	defer func() { vc.top.cur = prevCur }()
	fr.entrySt = vc.st.clone()
	if len(fr.fn.Blocks) == 0 {
		vc.errorf("function %s has no body", fr.fn)
		return
	}
	order := forwardOrder(fr.fn, fr.loops)
	vc.processBlocks(fr, order, nil)
}

func (vc *VC) edgeCond(fr *Frame, p, b *ssa.BasicBlock) string {
	end := fr.ends[p]
	last := p.Instrs[len(p.Instrs)-1]
	if iff, ok := last.(*ssa.If); ok {
		if p.Succs[0] == p.Succs[1] {
			return end.reach
		}
		c := vc.valueOf(fr, iff.Cond).T
		if p.Succs[0] == b {
			return andTerms(end.reach, c)
		}
		return andTerms(end.reach, "(not "+c+")")
	}
	return end.reach
}

func andTerms(a, b string) string {
	if a == "true" {
		return b
	}
	if b == "true" {
		return a
	}
	return "(and " + a + " " + b + ")"
}

func orTerms(ts []string) string {
	if len(ts) == 0 {
		return "false"
	}
	if len(ts) == 1 {
		return ts[0]
	}
	return "(or " + strings.Join(ts, " ") + ")"
}

func isBackEdge(p, b *ssa.BasicBlock) bool { return b.Dominates(p) }

// processBlocks executes blocks (already in forward order).  If only is
// non-nil, execution is restricted to that loop's body and starts at its
// header with the state already prepared (discovery pass).
func (vc *VC) processBlocks(fr *Frame, order []*ssa.BasicBlock, only *loopInfo) {
	for _, b := range order {
		if b == fr.fn.Recover {
			continue
		}
		if only != nil && !only.body[b] {
			continue
		}
		fr.curBlock = b
		if only != nil && b == only.header {
			// state and phis prepared by the caller
		} else if b.Index == 0 {
			// entry block: current state
		} else {
			var conds []string
			var states []*State
			var preds []*ssa.BasicBlock
			for _, p := range b.Preds {
				if isBackEdge(p, b) {
					continue
				}
				if fr.ends[p] == nil {
					continue
				}
				if only != nil && !only.body[p] {
					continue
				}
				conds = append(conds, vc.edgeCond(fr, p, b))
				states = append(states, fr.ends[p].st)
				preds = append(preds, p)
			}
			if len(preds) == 0 {
				delete(fr.ends, b)
				continue
			}
			named := make([]string, len(conds))
			for i, c := range conds {
				named[i] = vc.define(fmt.Sprintf("edge_%d_%d", preds[i].Index, b.Index), "Bool", c)
			}
			vc.reach = vc.define(fmt.Sprintf("reach_%s_b%d", sanitize(fr.fn.Name()), b.Index), "Bool", orTerms(named))
			if len(named) >= 2 && len(named) <= 4 {
				vc.merges = append(vc.merges, named)
			}
			vc.st = vc.mergeStates(named, states)
			// phis over forward edges
			phiVals := vc.phiValues(fr, b, preds, named)
			if li := fr.loops[b]; li != nil {
				vc.enterLoop(fr, li, phiVals)
			} else {
				for phi, v := range phiVals {
					fr.vals[phi] = v
				}
			}
		}
		vc.execBlock(fr, b)
		fr.ends[b] = &blockOut{st: vc.st, reach: vc.reach}
		// back edges leaving this block
		for _, s := range b.Succs {
			if isBackEdge(b, s) {
				vc.backEdge(fr, b, s)
			}
		}
	}
}

// phiValues computes, for each phi of b, the value flowing in over the given
// predecessor edges.
func (vc *VC) phiValues(fr *Frame, b *ssa.BasicBlock, preds []*ssa.BasicBlock, conds []string) map[*ssa.Phi]*Val {
	out := map[*ssa.Phi]*Val{}
	for _, in := range b.Instrs {
		phi, ok := in.(*ssa.Phi)
		if !ok {
			break
		}
		var vals []*Val
		for _, p := range preds {
			for i, bp := range b.Preds {
				if bp == p {
					saveSt, saveReach := vc.st, vc.reach
					vc.st = fr.ends[p].st
					vals = append(vals, vc.valueOf(fr, phi.Edges[i]))
					vc.st, vc.reach = saveSt, saveReach
					break
				}
			}
		}
		out[phi] = vc.mergeVals(phi, vals, conds)
	}
	return out
}

func (vc *VC) mergeVals(phi *ssa.Phi, vals []*Val, conds []string) *Val {
	if len(vals) == 1 {
		return vals[0]
	}
	allSame := true
	for _, v := range vals {
		if v.Loc != nil || v.Clo != nil || v.Tuple != nil {
			// translation-time values must agree
			if v != vals[0] {
				allSame = false
			}
		} else if v.T != vals[0].T || vals[0].Loc != nil {
			allSame = false
		}
	}
	if allSame {
		return vals[0]
	}
	for i, v := range vals {
		if v.Clo != nil && v.T == "" {
			vc.errorf("%s: phi %s merges closures known only at translation time (outside subset)", vc.p.fset.Position(phi.Pos()), phi.Name())
			return &Val{T: vc.fresh("phi_unsupported", vc.sortOf(phi.Type())), Ty: phi.Type()}
		}
		if v.Loc != nil && v.T == "" {
			vals[i] = vc.materializeAddr(v, phi.Type())
		}
	}
	t := vals[len(vals)-1].T
	for i := len(vals) - 2; i >= 0; i-- {
		t = fmt.Sprintf("(ite %s %s %s)", conds[i], vals[i].T, t)
	}
	name := phi.Comment
	if name == "" {
		name = phi.Name()
	}
	return &Val{T: vc.define("phi_"+name, vc.sortOf(phi.Type()), t), Ty: phi.Type()}
}

func (vc *VC) loopNames(fr *Frame, li *loopInfo, phiVals map[*ssa.Phi]*Val) map[string]*Val {
	names := map[string]*Val{}
	for phi, v := range phiVals {
		if phi.Comment != "" {
			n := phi.Comment
			if n == "rangeindex" {
				n = "#i"
			}
			if n == "rangeint.iter" {
				// `for range n`: the number of completed iterations
				n = "#n"
			}
			names[n] = v
		}
	}
	// the visited-set of a map range: #seen
	for _, in := range li.header.Instrs {
		if nx, ok := in.(*ssa.Next); ok {
			if it, ok := fr.vals[nx.Iter]; ok && it.Path != "" {
				if mt, ok := it.TypeV.(*types.Map); ok {
					srt := "(Array " + vc.sortOf(mt.Key()) + " Bool)"
					names["#seen"] = &Val{T: vc.get(it.Path, srt), Ty: &GhostArr{K: mt.Key(), V: types.Typ[types.Bool]}}
				}
			}
		}
	}
	// the hidden indices of the enclosing loops: #i<ordinal>
	for h, outer := range fr.loops {
		if h == li.header || !outer.body[li.header] {
			continue
		}
		for _, in := range h.Instrs {
			phi, ok := in.(*ssa.Phi)
			if !ok {
				break
			}
			if phi.Comment == "rangeindex" {
				if v, ok := fr.vals[phi]; ok {
					names[fmt.Sprintf("#i%d", outer.ordinal)] = v
				}
			}
		}
	}
	return names
}

// specEnv builds the evaluation environment for specs of frame fr.
func (vc *VC) specEnv(fr *Frame, extra map[string]*Val) *Env {
	env := &Env{vars: map[string]*Val{}, st: vc.st, old: fr.entrySt}
	if fr.spec != nil {
		env.pkg, env.imports = fr.spec.Pkg, fr.spec.Imports
	}
	if env.pkg == "" && fr.fn.Pkg != nil {
		env.pkg = fr.fn.Pkg.Pkg.Path()
	}
	for k, v := range fr.names {
		env.vars[k] = v
	}
	for k, v := range fr.lets {
		env.vars[k] = v
	}
	for k, v := range extra {
		env.vars[k] = v
	}
	return env
}

// localNames resolves source-level local variable names that dominate block b.
func (vc *VC) localNames(fr *Frame, b *ssa.BasicBlock, into map[string]*Val) {
	for name, vals := range fr.dbg {
		if _, ok := into[name]; ok {
			continue
		}
		if a, ok := fr.dbgAddr[name]; ok && a.Block() != nil && (a.Block() == b || a.Block().Dominates(b)) {
			// lives in a cell: resolved below to the cell's content
			continue
		}
		if _, ok := fr.names[name]; ok {
			continue
		}
		var best ssa.Value
		for _, v := range vals {
			in, ok := v.(ssa.Instruction)
			if !ok {
				continue
			}
			if in.Block() != nil && in.Block() != b && in.Block().Dominates(b) {
				if tv, done := fr.vals[v]; done && tv != nil {
					if best == nil || best.(ssa.Instruction).Block().Dominates(in.Block()) {
						best = v
					}
				}
			}
		}
		if best != nil {
			into[name] = fr.vals[best]
		}
	}
	// address-taken locals that are never read as plain values: the variable
	// is what its cell holds in the state the expression is evaluated in
	for name, a := range fr.dbgAddr {
		if _, ok := into[name]; ok {
			continue
		}
		if _, ok := fr.names[name]; ok {
			continue
		}
		if a.Block() != nil && (a.Block() == b || a.Block().Dominates(b)) {
			if pv, done := fr.vals[a]; done && pv != nil {
				into[name] = &Val{DerefOf: pv, Ty: a.Type().Underlying().(*types.Pointer).Elem()}
			}
		}
	}
}

// localNamesAt resolves source-level local names to their closest definition
// or use that precedes instruction at.
func (vc *VC) localNamesAt(fr *Frame, at ssa.Instruction, into map[string]*Val) {
	b := at.Block()
	order := map[ssa.Instruction]int{}
	for i, in := range b.Instrs {
		order[in] = i
	}
	atIdx := order[at]
	for name, vals := range fr.dbg {
		if _, ok := fr.names[name]; ok {
			continue
		}
		var best ssa.Value
		bestIdx := -1
		for _, v := range vals {
			in, ok := v.(ssa.Instruction)
			if !ok || in.Block() == nil {
				continue
			}
			tv, done := fr.vals[v]
			if !done || tv == nil {
				continue
			}
			if in.Block() == b {
				if i := order[in]; i < atIdx && i > bestIdx {
					best, bestIdx = v, i
				}
				continue
			}
			if bestIdx >= 0 {
				continue
			}
			if in.Block().Dominates(b) {
				if best == nil || best.(ssa.Instruction).Block().Dominates(in.Block()) {
					best = v
				}
			}
		}
		if best != nil {
			into[name] = fr.vals[best]
		}
	}
}

func (vc *VC) enterLoop(fr *Frame, li *loopInfo, phiIn map[*ssa.Phi]*Val) {
	var ls *LoopSpec
	if fr.spec != nil {
		ls = fr.spec.Loops[li.ordinal]
	}
	pos := li.header.Instrs[0].Pos()
	if ls == nil {
		if vc.discovery == 0 {
			vc.errorf("%s: loop %d of %s has no invariant", vc.p.fset.Position(pos), li.ordinal, fr.fn)
		}
		ls = &LoopSpec{}
	}
	// 1. invariant on entry
	names := vc.loopNames(fr, li, phiIn)
	vc.localNames(fr, li.header, names)
	env := vc.specEnv(fr, names)
	for i, inv0 := range ls.Invariants {
		for _, inv := range conjuncts(inv0) {
			if t, ok := vc.evalBool(inv, env); ok {
				vc.oblige("loop-entry", vc.clauseLabel(fmt.Sprintf("loop%d:%d", li.ordinal, i+1), inv, i), t, pos, "loop invariant holds on entry: "+inv.Src)
			}
		}
	}
	// 2. discovery of the storage modified by the body
	headerState := vc.st.clone()
	reachIn := vc.reach
	cp := vc.checkpoint()
	vc.discovery++
	saveVals := map[ssa.Value]*Val{}
	for k, v := range fr.vals {
		saveVals[k] = v
	}
	saveEnds := map[*ssa.BasicBlock]*blockOut{}
	for k, v := range fr.ends {
		saveEnds[k] = v
	}
	saveDefers := fr.defers
	saveRets := fr.rets
	for phi := range phiIn {
		fr.vals[phi] = &Val{T: vc.fresh("disc_"+phi.Name(), vc.sortOf(phi.Type())), Ty: phi.Type()}
	}
	if fr.discover == nil {
		fr.discover = map[*ssa.BasicBlock]map[string]bool{}
	}
	fr.discover[li.header] = map[string]bool{}
	saveWrites := vc.discWrites
	vc.discWrites = map[string][]string{}
	saveHavocs := vc.discHavocs
	vc.discHavocs = nil
	startCounter := vc.nfresh
	if fr.discHeader == nil {
		fr.discHeader = map[*ssa.BasicBlock]*State{}
	}
	fr.discHeader[li.header] = vc.st.clone()
	vc.reach = vc.fresh("disc_reach", "Bool")
	order := forwardOrder(fr.fn, fr.loops)
	saveBlock := fr.curBlock
	vc.processBlocks(fr, order, li)
	fr.curBlock = saveBlock
	modified := fr.discover[li.header]
	delete(fr.discover, li.header)
	writes := vc.discWrites
	vc.discWrites = saveWrites
	havocs := vc.discHavocs
	vc.discHavocs = append(saveHavocs, havocs...)
	if saveWrites != nil {
		// an enclosing discovery pass sees these writes too
		for k, v := range writes {
			saveWrites[k] = append(saveWrites[k], v...)
		}
	}
	vc.discovery--
	vc.rollback(cp)
	fr.vals, fr.ends, fr.defers, fr.rets = saveVals, saveEnds, saveDefers, saveRets
	vc.st = headerState
	// 3. havoc
	hreach := vc.fresh(fmt.Sprintf("reach_%s_loop%d", sanitize(fr.fn.Name()), li.ordinal), "Bool")
	vc.emit("(assert (=> %s %s))", hreach, reachIn)
	vc.reach = hreach
	partial := map[string]bool{}
	keys := make([]string, 0, len(modified))
	for k, isMod := range modified {
		if isMod {
			keys = append(keys, k)
		}
	}
	sort.Strings(keys)
	if os.Getenv("GOVC_DEBUG") != "" {
		fmt.Fprintf(os.Stderr, "loop %d of %s modifies %v\n", li.ordinal, fr.fn.Name(), keys)
	}
	for _, k := range keys {
		srt := vc.p.storageSort[k]
		if srt == "" {
			continue
		}
		if k == "alloc" {
			oldA := vc.get("alloc", srt)
			vc.havocStorage(k, srt)
			vc.emit("(assert (>= %s %s))", vc.st.m[k], oldA)
			continue
		}
		// When every write of the body to this storage goes to an index that
		// does not depend on the iteration, only those entries are forgotten.
		if idxs := invariantIndices(writes[k], startCounter); idxs != nil && strings.HasPrefix(srt, "(Array ") {
			elem := arrayElemSort(srt)
			for _, ix := range idxs {
				f := vc.fresh("havoc_"+k, elem)
				vc.set(k, srt, fmt.Sprintf("(store %s %s %s)", vc.get(k, srt), ix, f))
			}
			partial[k] = true
			continue
		}
		vc.havocStorage(k, srt)
	}
	if modified["__epoch"] {
		// The body changes the whole heap.  When every such change comes from
		// a callee declaring `modifies heap`, ghost state and what all of
		// those callees preserve survive (the ghosts the body modifies were
		// forgotten one by one above).
		heapOnly := len(havocs) > 0
		var keep map[string]bool
		for i, h := range havocs {
			heapOnly = heapOnly && h.keepGhost
			if i == 0 {
				keep = map[string]bool{}
				for k := range h.keep {
					keep[k] = true
				}
				continue
			}
			for k := range keep {
				if !h.keep[k] {
					delete(keep, k)
				}
			}
		}
		if heapOnly {
			vc.keepHeaps = keep
			vc.havocHeap("loop body calls code that may change the whole heap")
			vc.keepHeaps = nil
		} else {
			vc.havocAll("loop body calls code without a contract")
		}
	}
	// Frame: every write in the function under verification is checked against
	// its modifies clause, so objects that existed at entry and are not named
	// there still hold their entry values.
	if vc.checkFrame && !vc.modAll && !modified["__epoch"] && vc.st.epoch == "" {
		for _, k := range keys {
			if !heapLike(k) || strings.HasPrefix(k, "G.") || strings.HasPrefix(k, "GV.") || partial[k] {
				continue
			}
			srt := vc.p.storageSort[k]
			if srt == "" {
				continue
			}
			whole := false
			var excl []string
			for _, m := range vc.modLocs {
				if m.Heap != k {
					continue
				}
				if m.Idx == "" {
					whole = true
				} else {
					excl = append(excl, fmt.Sprintf("(not (= r %s))", m.Idx))
				}
			}
			if whole {
				continue
			}
			cond := "(and (< 0 r) (< r alloc@0))"
			if len(excl) > 0 {
				cond = "(and (< 0 r) (< r alloc@0) " + strings.Join(excl, " ") + ")"
			}
			vc.emit("(assert (forall ((r Int)) (! (=> %s (= (select %s r) (select %s r))) :pattern ((select %s r)))))", cond, vc.st.m[k], vc.entryVersion(k, srt), vc.st.m[k])
		}
	}
	for _, in := range li.header.Instrs {
		phi, ok := in.(*ssa.Phi)
		if !ok {
			break
		}
		name := phi.Comment
		if name == "" {
			name = phi.Name()
		}
		v := &Val{T: vc.fresh("loop_"+name, vc.sortOf(phi.Type())), Ty: phi.Type()}
		vc.valueFacts(v.T, v.Ty)
		fr.vals[phi] = v
		phiIn[phi] = v
	}
	// 4. assume invariant
	names = vc.loopNames(fr, li, phiIn)
	vc.localNames(fr, li.header, names)
	env = vc.specEnv(fr, names)
	if ls.Staged {
		vc.hypLoops++
		if fr.hypIDs == nil {
			fr.hypIDs = map[*ssa.BasicBlock]int{}
		}
		fr.hypIDs[li.header] = vc.hypLoops
	}
	for i, inv := range ls.Invariants {
		if t, ok := vc.evalBool(inv, env); ok {
			if ls.Staged {
				vc.curHyp = hypTag{loop: fr.hypIDs[li.header], idx: i + 1}
			}
			vc.assume(t)
			vc.curHyp = hypTag{}
		}
	}
}

func (vc *VC) clauseLabel(prefix string, cl *Clause, i int) string {
	if cl.Label != "" {
		return prefix + ":" + cl.Label
	}
	return fmt.Sprintf("%s:%d", prefix, i+1)
}

func (vc *VC) backEdge(fr *Frame, from, header *ssa.BasicBlock) {
	li := fr.loops[header]
	if li == nil {
		return
	}
	end := fr.ends[from]
	if d := fr.discover[header]; d != nil && vc.discovery > 0 {
		// discovery: record modified storage
		for k, t := range end.st.m {
			d[k] = d[k] || (t != vc.discBase(fr, header, k))
		}
		if end.st.epoch != vc.discEpoch(fr, header) {
			d["__epoch"] = true
		}
		return
	}
	var ls *LoopSpec
	if fr.spec != nil {
		ls = fr.spec.Loops[li.ordinal]
	}
	if ls == nil {
		return
	}
	saveSt, saveReach := vc.st, vc.reach
	vc.st = end.st.clone()
	vc.reach = vc.define("backedge", "Bool", vc.edgeCond(fr, from, header))
	phiVals := map[*ssa.Phi]*Val{}
	for _, in := range header.Instrs {
		phi, ok := in.(*ssa.Phi)
		if !ok {
			break
		}
		for i, bp := range header.Preds {
			if bp == from {
				phiVals[phi] = vc.valueOf(fr, phi.Edges[i])
			}
		}
	}
	names := vc.loopNames(fr, li, phiVals)
	vc.localNames(fr, header, names)
	env := vc.specEnv(fr, names)
	pos := from.Instrs[len(from.Instrs)-1].Pos()
	if !pos.IsValid() {
		pos = header.Instrs[0].Pos()
	}
	for i, inv0 := range ls.Invariants {
		for _, inv := range conjuncts(inv0) {
			if t, ok := vc.evalBool(inv, env); ok {
				n := len(vc.obls)
				vc.oblige("loop-preserve", vc.clauseLabel(fmt.Sprintf("loop%d:%d", li.ordinal, i+1), inv, i), t, pos, "loop invariant is preserved: "+inv.Src)
				if ls.Staged && len(vc.obls) > n {
					vc.obls[len(vc.obls)-1].Hyp = hypTag{loop: fr.hypIDs[header], idx: i + 1}
				}
			}
		}
	}
	vc.st, vc.reach = saveSt, saveReach
}

// discBase returns the term a storage key had at the loop header during the
// discovery pass.
func (vc *VC) discBase(fr *Frame, header *ssa.BasicBlock, k string) string {
	if hb := fr.discHeader[header]; hb != nil {
		if t, ok := hb.m[k]; ok {
			return t
		}
		// not read before the loop: the version a read at the header would
		// have named (a havoc inside the body that pins preserved storage
		// produces exactly this name, which is not a modification)
		if hb.epoch != "" && heapLike(k) && !vc.immutableHeaps()[k] {
			return k + "@" + hb.epoch
		}
		return k + "@0"
	}
	return "\x00none"
}

func (vc *VC) discEpoch(fr *Frame, header *ssa.BasicBlock) string {
	if hb := fr.discHeader[header]; hb != nil {
		return hb.epoch
	}
	return ""
}

func (vc *VC) execBlock(fr *Frame, b *ssa.BasicBlock) {
	for _, in := range b.Instrs {
		vc.execInstr(fr, in)
	}
}

// valueOf translates an SSA value operand.
func (vc *VC) valueOf(fr *Frame, v ssa.Value) *Val {
	switch v := v.(type) {
	case *ssa.Const:
		if v.Value == nil {
			return &Val{T: vc.zeroValue(v.Type()), Ty: v.Type()}
		}
		return constToVal(vc, v.Value, v.Type())
	case *ssa.Function:
		return &Val{T: vc.funcID(v), Ty: v.Type(), Clo: &Closure{Fn: v}}
	case *ssa.Global:
		obj, _ := v.Object().(*types.Var)
		if obj == nil {
			return &Val{T: vc.fresh("global", "Int"), Ty: v.Type()}
		}
		if _, isArr := obj.Type().Underlying().(*types.Array); isArr {
			// package-level arrays live in the element heap under a constant id
			name := "garr_" + sanitize(obj.Pkg().Path()) + "_" + obj.Name()
			if !vc.declared[name] {
				vc.declare(name, fmt.Sprintf("(declare-const %s Int)", name))
				vc.emit("(assert (and (> %s 0) (< %s alloc@0)))", name, name)
			}
			return &Val{T: name, Ty: v.Type()}
		}
		return &Val{Ty: v.Type(), Loc: vc.globalLoc(obj)}
	case *ssa.Builtin:
		return &Val{Ty: v.Type()}
	}
	for f := fr; f != nil; f = f.parent {
		if x, ok := f.vals[v]; ok {
			return x
		}
	}
	vc.errorf("%s: value %s (%T) used before definition in %s", vc.p.fset.Position(v.Pos()), v.Name(), v, fr.fn)
	return &Val{T: vc.fresh("undef_"+v.Name(), vc.sortOf(v.Type())), Ty: v.Type()}
}

func (vc *VC) funcID(fn *ssa.Function) string {
	name := "fn_" + sanitize(shortFuncName(fn))
	if !vc.declared[name] {
		vc.declare(name, fmt.Sprintf("(declare-const %s Int)", name))
		vc.emit("(assert (> %s 0))", name)
	}
	return name
}

// nilCheck emits the obligation that a pointer is not nil.
func (vc *VC) nilCheck(fr *Frame, ref string, pos token.Pos, what string) {
	if vc.noSafety(fr, "nil") {
		return
	}
	vc.oblige("safety-nil", what, fmt.Sprintf("(not (= %s 0))", ref), pos, "nil dereference of "+what)
}

func (vc *VC) noSafety(fr *Frame, kind string) bool {
	for f := fr; f != nil; f = f.parent {
		if f.spec != nil && (f.spec.NoSafety[kind] || f.spec.NoSafety["all"]) {
			return true
		}
	}
	return false
}

func (vc *VC) posOf(in ssa.Instruction) token.Pos {
	if in.Pos().IsValid() {
		return in.Pos()
	}
	// fall back to the closest earlier instruction with a position
	b := in.Block()
	if b == nil {
		return token.NoPos
	}
	best := token.NoPos
	for _, x := range b.Instrs {
		if x == in {
			break
		}
		if x.Pos().IsValid() {
			best = x.Pos()
		}
	}
	return best
}

func (vc *VC) execInstr(fr *Frame, in ssa.Instruction) {
	vc.curInstr = in
	pos := vc.posOf(in)
	switch in := in.(type) {
	case *ssa.DebugRef:
	case *ssa.Phi:
		// handled at block entry
		if _, ok := fr.vals[in]; !ok && fr.curBlock.Index != 0 {
			// phi in a block entered with a single predecessor handled above
		}
	case *ssa.Alloc:
		vc.execAlloc(fr, in)
	case *ssa.FieldAddr:
		fr.vals[in] = vc.fieldAddr(fr, in, pos)
	case *ssa.Field:
		x := vc.valueOf(fr, in.X)
		st := in.X.Type().Underlying().(*types.Struct)
		f := st.Field(in.Field)
		if x.Tuple != nil {
			fr.vals[in] = x.Tuple[in.Field]
			return
		}
		if vc.isOpaqueStruct(in.X.Type()) {
			// field of an opaque dependency struct: an uninterpreted projection
			acc := vc.accessor(in.X.Type(), f.Name())
			if !vc.declared[acc] {
				vc.declare(acc, fmt.Sprintf("(declare-fun %s (%s) %s)", acc, vc.sortOf(in.X.Type()), vc.sortOf(f.Type())))
			}
			v := &Val{T: fmt.Sprintf("(%s %s)", acc, x.T), Ty: f.Type()}
			vc.assume(vc.rangeFact(v.T, v.Ty))
			fr.vals[in] = v
			return
		}
		fr.vals[in] = &Val{T: fmt.Sprintf("(%s %s)", vc.accessor(in.X.Type(), f.Name()), x.T), Ty: f.Type()}
	case *ssa.IndexAddr:
		fr.vals[in] = vc.indexAddr(fr, in, pos)
	case *ssa.Index:
		x := vc.valueOf(fr, in.X)
		i := vc.valueOf(fr, in.Index)
		switch u := in.X.Type().Underlying().(type) {
		case *types.Array:
			vc.boundsCheck(fr, i.T, strconv.FormatInt(u.Len(), 10), pos)
			fr.vals[in] = &Val{T: fmt.Sprintf("(select %s %s)", x.T, i.T), Ty: u.Elem()}
		default:
			// string
			vc.boundsCheck(fr, i.T, fmt.Sprintf("(slen %s)", x.T), pos)
			v := &Val{T: fmt.Sprintf("(sat %s %s)", x.T, i.T), Ty: in.Type()}
			vc.assume(vc.rangeFact(v.T, v.Ty))
			fr.vals[in] = v
		}
	case *ssa.UnOp:
		fr.vals[in] = vc.unop(fr, in, pos)
	case *ssa.BinOp:
		fr.vals[in] = vc.binop(fr, in, pos)
	case *ssa.Store:
		addr := vc.valueOf(fr, in.Addr)
		v := vc.valueOf(fr, in.Val)
		l := vc.ptrLoc(fr, addr, in.Addr.Type(), pos, "store")
		if l == nil {
			return
		}
		vc.storeVal(l, v, pos)
	case *ssa.Convert:
		fr.vals[in] = vc.convert(fr, in)
	case *ssa.ChangeType:
		x := vc.valueOf(fr, in.X)
		nv := *x
		nv.Ty = in.Type()
		fr.vals[in] = &nv
	case *ssa.ChangeInterface:
		x := vc.valueOf(fr, in.X)
		nv := *x
		nv.Ty = in.Type()
		fr.vals[in] = &nv
	case *ssa.SliceToArrayPointer:
		// (*[N]T)(s): panics when len(s) < N; the result addresses the
		// window of s's array starting at its offset (an opaque reference
		// determined by array and offset; a nil slice gives nil for N == 0
		// only, which the length obligation covers for N > 0).
		x := vc.valueOf(fr, in.X)
		n := int64(0)
		if pt, ok := in.Type().Underlying().(*types.Pointer); ok {
			if at, ok := pt.Elem().Underlying().(*types.Array); ok {
				n = at.Len()
			}
		}
		vc.oblige("safety-slice", "array-pointer", fmt.Sprintf("(<= %d (s_len %s))", n, x.T), in.Pos(), "slice to array pointer: the slice is long enough")
		if !vc.declared["sl2arr"] {
			vc.declare("sl2arr", "(declare-fun sl2arr (Int Int) Int)")
		}
		r := vc.define("sl2arr_"+in.Name(), "Int", fmt.Sprintf("(sl2arr (s_arr %s) (s_off %s))", x.T, x.T))
		if n > 0 {
			vc.assume(fmt.Sprintf("(not (= %s 0))", r))
		}
		// the window starting at offset 0 is the array itself (a slice of an
		// array pointer p has array p and offset 0)
		vc.assume(fmt.Sprintf("(=> (= (s_off %s) 0) (= %s (s_arr %s)))", x.T, r, x.T))
		fr.vals[in] = &Val{T: r, Ty: in.Type(), WinArr: fmt.Sprintf("(s_arr %s)", x.T), WinOff: fmt.Sprintf("(s_off %s)", x.T)}
	case *ssa.MakeInterface:
		fr.vals[in] = vc.makeInterface(fr, in)
	case *ssa.TypeAssert:
		fr.vals[in] = vc.typeAssert(fr, in, pos)
	case *ssa.Extract:
		t := vc.valueOf(fr, in.Tuple)
		if t.Tuple == nil || in.Index >= len(t.Tuple) {
			vc.errorf("%s: extract from non-tuple", vc.p.fset.Position(pos))
			fr.vals[in] = &Val{T: vc.fresh("extract", vc.sortOf(in.Type())), Ty: in.Type()}
			return
		}
		fr.vals[in] = t.Tuple[in.Index]
	case *ssa.MakeSlice:
		ln := vc.valueOf(fr, in.Len)
		cp := vc.valueOf(fr, in.Cap)
		if !vc.noSafety(fr, "bounds") {
			vc.oblige("safety-makeslice", "len", fmt.Sprintf("(and (<= 0 %s) (<= %s %s))", ln.T, ln.T, cp.T), pos, "make: 0 <= len <= cap")
		}
		et := in.Type().Underlying().(*types.Slice).Elem()
		a := vc.allocRef("mkslice")
		hn, hs := vc.elemHeap(et)
		vc.set(hn, hs, fmt.Sprintf("(store %s %s ((as const (Array Int %s)) %s))", vc.get(hn, hs), a, vc.sortOf(et), vc.zeroValue(et)))
		fr.vals[in] = &Val{T: fmt.Sprintf("(mk_slice %s 0 %s %s)", a, ln.T, cp.T), Ty: in.Type()}
	case *ssa.Slice:
		fr.vals[in] = vc.sliceOp(fr, in, pos)
	case *ssa.MakeMap:
		r := vc.allocRef("mkmap")
		mt := in.Type().Underlying().(*types.Map)
		dn, ds, _, _ := vc.mapHeaps(mt)
		vc.set(dn, ds, fmt.Sprintf("(store %s %s ((as const (Array %s Bool)) false))", vc.get(dn, ds), r, vc.sortOf(mt.Key())))
		fr.vals[in] = &Val{T: r, Ty: in.Type()}
	case *ssa.Lookup:
		fr.vals[in] = vc.lookup(fr, in, pos)
	case *ssa.MapUpdate:
		m := vc.valueOf(fr, in.Map)
		k := vc.valueOf(fr, in.Key)
		v := vc.valueOf(fr, in.Value)
		mt := in.Map.Type().Underlying().(*types.Map)
		vc.nilCheck(fr, m.T, pos, "map")
		vc.atPointAsserts(fr, nil, "mapupdate", []*Val{m, {T: vc.mapKey(mt, vc.coerce(k, mt.Key()).T), Ty: mt.Key()}, vc.coerce(v, mt.Elem())}, in, pos)
		vc.mapStore(mt, m.T, vc.coerce(k, mt.Key()).T, vc.coerce(v, mt.Elem()).T, pos)
	case *ssa.Range:
		vc.rangeStart(fr, in, pos)
	case *ssa.Next:
		vc.rangeNext(fr, in, pos)
	case *ssa.MakeClosure:
		fn := in.Fn.(*ssa.Function)
		var bs []*Val
		for _, b := range in.Bindings {
			bs = append(bs, vc.valueOf(fr, b))
		}
		fr.vals[in] = &Val{T: vc.funcID(fn), Ty: in.Type(), Clo: &Closure{Fn: fn, Bindings: bs}}
	case *ssa.Call:
		fr.vals[in] = vc.execCall(fr, &in.Call, in, pos)
	case *ssa.Defer:
		if vc.inLoop(fr, in.Block()) {
			vc.errorf("%s: defer inside a loop (outside subset)", vc.p.fset.Position(pos))
		}
		fr.defers = append(fr.defers, &deferRec{call: &in.Call, instr: in, block: in.Block(), reach: vc.reach})
	case *ssa.RunDefers:
		vc.runDefers(fr, in)
	case *ssa.Go:
		vc.execGo(fr, in, pos)
	case *ssa.Panic:
		if !(fr.spec != nil && fr.spec.MayPanic) && !vc.noSafety(fr, "panic") {
			vc.oblige("safety-panic", "explicit", "false", pos, "explicit panic must be unreachable")
		}
		// the path ends here
		vc.reach = "false"
	case *ssa.Return:
		var rs []*Val
		for _, r := range in.Results {
			rs = append(rs, vc.valueOf(fr, r))
		}
		if fr.onReturn != nil {
			fr.onReturn(fr, rs, pos)
		}
		fr.rets = append(fr.rets, &retPoint{reach: vc.reach, st: vc.st, results: rs})
	case *ssa.If, *ssa.Jump:
	default:
		vc.errorf("%s: unsupported instruction %T (%s) in %s (outside subset)", vc.p.fset.Position(pos), in, in, fr.fn)
		if v, ok := in.(ssa.Value); ok {
			fr.vals[v] = &Val{T: vc.fresh("unsupported", vc.sortOf(v.Type())), Ty: v.Type()}
		}
	}
}

func (vc *VC) inLoop(fr *Frame, b *ssa.BasicBlock) bool {
	for _, li := range fr.loops {
		if li.body[b] {
			return true
		}
	}
	return false
}

func (vc *VC) execAlloc(fr *Frame, in *ssa.Alloc) {
	et := in.Type().Underlying().(*types.Pointer).Elem()
	if fr.private[in] {
		name := fmt.Sprintf("L.%s.%s", sanitize(fr.fn.Name()), in.Name())
		if in.Comment != "" {
			name += "." + sanitize(in.Comment)
		}
		vc.nfresh++
		name = fmt.Sprintf("%s.%d", name, vc.nfresh)
		l := &Loc{Kind: RLocal, Heap: name, RootT: et}
		vc.set(name, vc.sortOf(et), vc.zeroValue(et))
		fr.vals[in] = &Val{Ty: in.Type(), Loc: l}
		return
	}
	fr.vals[in] = vc.heapAlloc(et, in.Type(), in.Comment)
}

// heapAlloc allocates a zeroed heap object of type et.
func (vc *VC) heapAlloc(et types.Type, ptrT types.Type, hint string) *Val {
	r := vc.allocRef("new_" + hint)
	if _, isAt := atomicContent(et); isAt {
		hn, hs := vc.cellHeap(et)
		vc.set(hn, hs, fmt.Sprintf("(store %s %s %s)", vc.get(hn, hs), r, vc.zeroValue(et)))
		return &Val{T: r, Ty: ptrT}
	}
	switch u := et.Underlying().(type) {
	case *types.Struct:
		if vc.isOpaqueStruct(et) {
			return &Val{T: r, Ty: ptrT}
		}
		for i := 0; i < u.NumFields(); i++ {
			hn, hs := vc.fieldHeap(et, u.Field(i))
			vc.set(hn, hs, fmt.Sprintf("(store %s %s %s)", vc.get(hn, hs), r, vc.zeroValue(u.Field(i).Type())))
		}
	case *types.Array:
		hn, hs := vc.elemHeap(u.Elem())
		vc.set(hn, hs, fmt.Sprintf("(store %s %s ((as const (Array Int %s)) %s))", vc.get(hn, hs), r, vc.sortOf(u.Elem()), vc.zeroValue(u.Elem())))
	default:
		hn, hs := vc.cellHeap(et)
		vc.set(hn, hs, fmt.Sprintf("(store %s %s %s)", vc.get(hn, hs), r, vc.zeroValue(et)))
	}
	return &Val{T: r, Ty: ptrT}
}

// ptrLoc turns a pointer value into a location for load/store.
func (vc *VC) ptrLoc(fr *Frame, p *Val, ptrT types.Type, pos token.Pos, what string) *Loc {
	if p.Loc != nil && p.T == "" {
		return p.Loc
	}
	pt, ok := ptrT.Underlying().(*types.Pointer)
	if !ok {
		vc.errorf("%s: %s through non-pointer %s", vc.p.fset.Position(pos), what, ptrT)
		return nil
	}
	vc.nilCheck(fr, p.T, pos, what)
	et := pt.Elem()
	switch u := et.Underlying().(type) {
	case *types.Struct:
		if vc.isOpaqueStruct(et) {
			hn, _ := vc.cellHeap(et)
			return &Loc{Kind: RCell, Heap: hn, Base: p.T, RootT: et}
		}
		// whole-struct access handled by callers via loadStruct/storeStruct
		return &Loc{Kind: -1, Base: p.T, RootT: et}
	case *types.Array:
		hn, _ := vc.elemHeap(u.Elem())
		return &Loc{Kind: -2, Heap: hn, Base: p.T, RootT: et}
	}
	hn, _ := vc.cellHeap(et)
	return &Loc{Kind: RCell, Heap: hn, Base: p.T, RootT: et}
}

// storeVal stores v through location l, handling whole-struct and whole-array
// stores through plain references.
func (vc *VC) storeVal(l *Loc, v *Val, pos token.Pos) {
	switch l.Kind {
	case -1:
		st := l.RootT.Underlying().(*types.Struct)
		for i := 0; i < st.NumFields(); i++ {
			f := st.Field(i)
			hn, _ := vc.fieldHeap(l.RootT, f)
			fl := &Loc{Kind: RField, Heap: hn, Base: l.Base, RootT: f.Type()}
			vc.store(fl, fmt.Sprintf("(%s %s)", vc.accessor(l.RootT, f.Name()), v.T), pos)
		}
	case -2:
		at := l.RootT.Underlying().(*types.Array)
		hn, hs := vc.elemHeap(at.Elem())
		vc.frameCheck(hn, l.Base, pos)
		vc.set(hn, hs, fmt.Sprintf("(store %s %s %s)", vc.get(hn, hs), l.Base, v.T))
	default:
		tt := l.targetType()
		vc.store(l, vc.coerce(v, tt).T, pos)
	}
}

func (vc *VC) loadVal(l *Loc) *Val {
	switch l.Kind {
	case -1:
		return vc.loadStruct(vc.st, l.Base, l.RootT)
	case -2:
		at := l.RootT.Underlying().(*types.Array)
		hn, hs := vc.elemHeap(at.Elem())
		return &Val{T: fmt.Sprintf("(select %s %s)", vc.get(hn, hs), l.Base), Ty: l.RootT}
	}
	return vc.load(l)
}

// coerce adapts a value to the sort of type t (closures to function ids).
func (vc *VC) coerce(v *Val, t types.Type) *Val {
	if v.T == "" && v.Loc != nil {
		return vc.materializeAddr(v, t)
	}
	return v
}

// materializeAddr turns the address of a field or element into an opaque
// non-nil reference.  The verified code must not read or write through it
// afterwards (it is only stored or handed on); this is listed as an assumption.
func (vc *VC) materializeAddr(v *Val, t types.Type) *Val {
	l := v.Loc
	if l.Kind != RField && l.Kind != RElem && l.Kind != RCell {
		vc.errorf("address of a local variable is stored or passed as a value (outside subset)")
		return &Val{T: vc.fresh("addr", "Int"), Ty: t}
	}
	fn := "addrof_" + sanitize(l.Heap)
	if !vc.declared[fn] {
		vc.declare(fn, fmt.Sprintf("(declare-fun %s (Int Int) Int)", fn))
	}
	idx := l.Idx
	if idx == "" {
		idx = "0"
	}
	term := fmt.Sprintf("(%s %s %s)", fn, l.Base, idx)
	vc.assume(fmt.Sprintf("(> %s 0)", term))
	vc.used.Assumes["the address of a field or element ("+l.Heap+") is stored or handed on as an opaque reference; the verified code does not access memory through it"] = true
	return &Val{T: term, Ty: t}
}

func (vc *VC) fieldAddr(fr *Frame, in *ssa.FieldAddr, pos token.Pos) *Val {
	x := vc.valueOf(fr, in.X)
	st := in.X.Type().Underlying().(*types.Pointer).Elem()
	su := st.Underlying().(*types.Struct)
	f := su.Field(in.Field)
	out := &Val{Ty: in.Type(), PRoot: x.PRoot, PFields: append(append([]string{}, x.PFields...), f.Name())}
	if x.PRoot == nil && x.T != "" {
		out.PRoot = x
		out.PFields = []string{f.Name()}
	}
	if x.Loc != nil && x.T == "" {
		switch x.Loc.Kind {
		case -1, -2:
		default:
			nl := *x.Loc
			nl.Path = append(append([]PathElem{}, x.Loc.Path...), PathElem{Field: f.Name(), StruT: st, ElemT: f.Type()})
			out.Loc = &nl
			return out
		}
	}
	vc.nilCheck(fr, x.T, pos, "field "+f.Name())
	hn, _ := vc.fieldHeap(st, f)
	out.Loc = &Loc{Kind: RField, Heap: hn, Base: x.T, RootT: f.Type()}
	return out
}

func (vc *VC) boundsCheck(fr *Frame, idx, ln string, pos token.Pos) {
	if vc.noSafety(fr, "bounds") {
		return
	}
	vc.oblige("safety-bounds", "index", fmt.Sprintf("(and (<= 0 %s) (< %s %s))", idx, idx, ln), pos, "index in range")
}

func (vc *VC) indexAddr(fr *Frame, in *ssa.IndexAddr, pos token.Pos) *Val {
	x := vc.valueOf(fr, in.X)
	i := vc.valueOf(fr, in.Index)
	switch u := in.X.Type().Underlying().(type) {
	case *types.Slice:
		vc.boundsCheck(fr, i.T, fmt.Sprintf("(s_len %s)", x.T), pos)
		vc.markIndex(i.T)
		hn, _ := vc.elemHeap(u.Elem())
		return &Val{Ty: in.Type(), Loc: &Loc{Kind: RElem, Heap: hn, Base: fmt.Sprintf("(s_arr %s)", x.T), Idx: fmt.Sprintf("(+ (s_off %s) %s)", x.T, i.T), RootT: u.Elem()}}
	case *types.Pointer:
		at := u.Elem().Underlying().(*types.Array)
		vc.boundsCheck(fr, i.T, strconv.FormatInt(at.Len(), 10), pos)
		if x.Loc != nil && x.T == "" {
			nl := *x.Loc
			nl.Path = append(append([]PathElem{}, x.Loc.Path...), PathElem{Index: i.T, ElemT: at.Elem()})
			return &Val{Ty: in.Type(), Loc: &nl}
		}
		vc.nilCheck(fr, x.T, pos, "array pointer")
		hn, _ := vc.elemHeap(at.Elem())
		return &Val{Ty: in.Type(), Loc: &Loc{Kind: RElem, Heap: hn, Base: x.T, Idx: i.T, RootT: at.Elem()}}
	}
	vc.errorf("%s: IndexAddr on %s", vc.p.fset.Position(pos), in.X.Type())
	return &Val{T: vc.fresh("idxaddr", "Int"), Ty: in.Type()}
}

func (vc *VC) unop(fr *Frame, in *ssa.UnOp, pos token.Pos) *Val {
	x := vc.valueOf(fr, in.X)
	switch in.Op {
	case token.MUL:
		if x.WinArr != "" {
			// *(*[N]T)(s): the N elements of s's array from its offset on
			if at, ok := in.Type().Underlying().(*types.Array); ok {
				hn, hs := vc.elemHeap(at.Elem())
				w := vc.arrWindow(fmt.Sprintf("(select %s %s)", vc.get(hn, hs), x.WinArr), x.WinOff, in.Type())
				nv := &Val{T: vc.define("ld_"+in.Name(), vc.sortOf(in.Type()), w), Ty: in.Type()}
				return nv
			}
		}
		l := vc.ptrLoc(fr, x, in.X.Type(), pos, "load")
		if l == nil {
			return &Val{T: vc.fresh("load", vc.sortOf(in.Type())), Ty: in.Type()}
		}
		vc.lockReadCheck(l, pos)
		vc.heapClosureAxiom(l)
		v := vc.loadVal(l)
		v.Ty = in.Type()
		v.PRoot, v.PFields = x.PRoot, x.PFields
		// give the loaded value a name to keep terms small, and constrain it
		nv := &Val{T: v.T, Ty: in.Type(), PRoot: x.PRoot, PFields: x.PFields}
		if !(l.Kind == RField && vc.immutableHeaps()[l.Heap]) {
			// (loads of immutable fields keep their raw term: it does not depend on the program point)
			nv.T = vc.define("ld_"+in.Name(), vc.sortOf(in.Type()), v.T)
		}
		vc.valueFacts(nv.T, nv.Ty)
		if g, ok := in.X.(*ssa.Global); ok && g.Pkg != nil && vc.p.db.NonNilGlobalPkgs[g.Pkg.Pkg.Path()] {
			switch vc.sortOf(in.Type()) {
			case "Iface":
				vc.assume(fmt.Sprintf("(not (= (i_tag %s) 0))", nv.T))
			case "Int":
				if _, isPtr := in.Type().Underlying().(*types.Pointer); isPtr {
					vc.assume(fmt.Sprintf("(not (= %s 0))", nv.T))
				}
			}
			vc.used.Assumes["package-level variables of "+g.Pkg.Pkg.Path()+" (metrics registered at init) are non-nil"] = true
		}
		if g, ok := in.X.(*ssa.Global); ok && strings.HasPrefix(g.Name(), "Err") && vc.sortOf(in.Type()) == "Iface" {
			// error sentinels (package-level variables named Err*) are non-nil
			vc.assume(fmt.Sprintf("(not (= (i_tag %s) 0))", nv.T))
			vc.used.Assumes["package-level error sentinels (variables named Err*) are non-nil"] = true
		}
		return nv
	case token.NOT:
		return &Val{T: "(not " + x.T + ")", Ty: in.Type()}
	case token.SUB:
		if vc.sortOf(in.Type()) == "Real" {
			return &Val{T: "(- " + x.T + ")", Ty: in.Type()}
		}
		return &Val{T: vc.wrapInt("(- "+x.T+")", in.Type()), Ty: in.Type()}
	case token.XOR:
		lo, hi, ok := intRange(in.Type())
		if ok && lo.Sign() == 0 {
			return &Val{T: fmt.Sprintf("(- %s %s)", hi.String(), x.T), Ty: in.Type()}
		}
		return &Val{T: fmt.Sprintf("(- (- %s) 1)", x.T), Ty: in.Type()}
	}
	vc.errorf("%s: unsupported unary operator %s (outside subset)", vc.p.fset.Position(pos), in.Op)
	return &Val{T: vc.fresh("unop", vc.sortOf(in.Type())), Ty: in.Type()}
}

func constInt(v ssa.Value) (int64, bool) {
	c, ok := v.(*ssa.Const)
	if !ok || c.Value == nil || c.Value.Kind() != constant.Int {
		return 0, false
	}
	i, exact := constant.Int64Val(c.Value)
	if !exact {
		u, ok := constant.Uint64Val(c.Value)
		if ok && u < 1<<62 {
			return int64(u), true
		}
		return 0, false
	}
	return i, true
}

func pow2(n int64) string {
	return new(bigInt).lsh(n)
}

func (vc *VC) binop(fr *Frame, in *ssa.BinOp, pos token.Pos) *Val {
	x := vc.valueOf(fr, in.X)
	y := vc.valueOf(fr, in.Y)
	t := in.Type()
	xs := vc.sortOf(in.X.Type())
	boolT := types.Typ[types.Bool]
	switch in.Op {
	case token.EQL, token.NEQ:
		var eq string
		switch {
		case xs == "Slice":
			// only comparison with nil is legal
			other := x
			if c, ok := in.X.(*ssa.Const); ok && c.Value == nil {
				other = y
			}
			eq = fmt.Sprintf("(= (s_arr %s) 0)", other.T)
		case x.T == "" || y.T == "":
			vc.errorf("%s: comparison of addresses known only at translation time", vc.p.fset.Position(pos))
			eq = vc.fresh("cmp", "Bool")
		default:
			if _, isArr := in.X.Type().Underlying().(*types.Array); isArr {
				eq = vc.arrEq(x.T, y.T, in.X.Type())
			} else {
				eq = fmt.Sprintf("(= %s %s)", x.T, y.T)
			}
		}
		if in.Op == token.NEQ {
			eq = "(not " + eq + ")"
		}
		return &Val{T: eq, Ty: boolT}
	case token.LSS, token.LEQ, token.GTR, token.GEQ:
		op := map[token.Token]string{token.LSS: "<", token.LEQ: "<=", token.GTR: ">", token.GEQ: ">="}[in.Op]
		if xs == "Str" {
			switch in.Op {
			case token.LSS:
				return &Val{T: fmt.Sprintf("(sless %s %s)", x.T, y.T), Ty: boolT}
			case token.GTR:
				return &Val{T: fmt.Sprintf("(sless %s %s)", y.T, x.T), Ty: boolT}
			case token.LEQ:
				return &Val{T: fmt.Sprintf("(not (sless %s %s))", y.T, x.T), Ty: boolT}
			default:
				return &Val{T: fmt.Sprintf("(not (sless %s %s))", x.T, y.T), Ty: boolT}
			}
		}
		return &Val{T: fmt.Sprintf("(%s %s %s)", op, x.T, y.T), Ty: boolT}
	}
	if xs == "Str" && in.Op == token.ADD {
		r := fmt.Sprintf("(sconcat %s %s)", x.T, y.T)
		vc.assume(fmt.Sprintf("(= (slen %s) (+ (slen %s) (slen %s)))", r, x.T, y.T))
		return &Val{T: r, Ty: t}
	}
	if xs == "Real" {
		op := map[token.Token]string{token.ADD: "+", token.SUB: "-", token.MUL: "*", token.QUO: "/"}[in.Op]
		if op == "" {
			vc.errorf("%s: unsupported float operator %s", vc.p.fset.Position(pos), in.Op)
			return &Val{T: vc.fresh("fop", "Real"), Ty: t}
		}
		return &Val{T: fmt.Sprintf("(%s %s %s)", op, x.T, y.T), Ty: t}
	}
	if xs == "Bool" {
		switch in.Op {
		case token.AND:
			return &Val{T: fmt.Sprintf("(and %s %s)", x.T, y.T), Ty: t}
		case token.OR:
			return &Val{T: fmt.Sprintf("(or %s %s)", x.T, y.T), Ty: t}
		}
	}
	switch in.Op {
	case token.ADD:
		return vc.named(in, vc.wrapInt(fmt.Sprintf("(+ %s %s)", x.T, y.T), t), t)
	case token.SUB:
		return vc.named(in, vc.wrapInt(fmt.Sprintf("(- %s %s)", x.T, y.T), t), t)
	case token.MUL:
		return vc.named(in, vc.wrapInt(fmt.Sprintf("(* %s %s)", x.T, y.T), t), t)
	case token.QUO:
		if !vc.noSafety(fr, "div") {
			vc.oblige("safety-div", "zero", fmt.Sprintf("(not (= %s 0))", y.T), pos, "division by zero")
		}
		return vc.named(in, vc.wrapInt(goDiv(x.T, y.T), t), t)
	case token.REM:
		if !vc.noSafety(fr, "div") {
			vc.oblige("safety-div", "zero", fmt.Sprintf("(not (= %s 0))", y.T), pos, "division by zero (remainder)")
		}
		r := vc.named(in, goRem(x.T, y.T), t)
		// linear consequences that keep ring-buffer arithmetic easy
		vc.assume(fmt.Sprintf("(=> (and (<= 0 %s) (< %s %s)) (= %s %s))", x.T, x.T, y.T, r.T, x.T))
		vc.assume(fmt.Sprintf("(=> (and (<= %s %s) (< %s (* 2 %s)) (> %s 0)) (= %s (- %s %s)))", y.T, x.T, x.T, y.T, y.T, r.T, x.T, y.T))
		return r
	case token.SHL:
		if n, ok := constInt(in.Y); ok && n >= 0 && n < 64 {
			return vc.named(in, vc.wrapInt(fmt.Sprintf("(* %s %s)", x.T, pow2(n)), t), t)
		}
	case token.SHR:
		if n, ok := constInt(in.Y); ok && n >= 0 && n < 64 {
			return vc.named(in, fmt.Sprintf("(div %s %s)", x.T, pow2(n)), t)
		}
	case token.AND:
		if m, ok := constInt(in.Y); ok {
			if r, ok := maskTerm(x.T, m, in.X.Type()); ok {
				return vc.named(in, r, t)
			}
		}
		if m, ok := constInt(in.X); ok {
			if r, ok := maskTerm(y.T, m, in.Y.Type()); ok {
				return vc.named(in, r, t)
			}
		}
	case token.OR:
		// x | c where the bits of c are known to be clear is not tracked; fall through
	}
	// Uninterpreted, but functional and range-constrained.
	name := "bvop_" + sanitize(in.Op.String())
	name = strings.NewReplacer("&", "and", "|", "or", "^", "xor", "<<", "shl", ">>", "shr", "&^", "andnot").Replace(in.Op.String())
	name = "bvop_" + sanitize(name) + "_" + sanitize(types.TypeString(t.Underlying(), nil))
	if !vc.declared[name] {
		vc.declare(name, fmt.Sprintf("(declare-fun %s (Int Int) Int)", name))
	}
	r := vc.named(in, fmt.Sprintf("(%s %s %s)", name, x.T, y.T), t)
	vc.assume(vc.rangeFact(r.T, t))
	vc.used.Builtins["bit operation "+in.Op.String()+" treated as an uninterpreted function"] = true
	return r
}

// maskTerm rewrites x & m for masks of the form 2^k-1 and 2^a*(2^b-1).
func maskTerm(x string, m int64, t types.Type) (string, bool) {
	if m < 0 {
		return "", false
	}
	lo, _, ok := intRange(t)
	if !ok || lo.Sign() != 0 {
		// signed operand: only valid when x >= 0; skip
		return "", false
	}
	if m == 0 {
		return "0", true
	}
	// find lowest set bit a and check contiguity
	a := 0
	for (m>>uint(a))&1 == 0 {
		a++
	}
	w := m >> uint(a)
	b := 0
	for (w>>uint(b))&1 == 1 {
		b++
	}
	if w>>uint(b) != 0 {
		return "", false
	}
	// (x div 2^a mod 2^b) * 2^a
	if a == 0 {
		return fmt.Sprintf("(mod %s %s)", x, pow2(int64(b))), true
	}
	return fmt.Sprintf("(* (mod (div %s %s) %s) %s)", x, pow2(int64(a)), pow2(int64(b)), pow2(int64(a))), true
}

func (vc *VC) named(in ssa.Value, term string, t types.Type) *Val {
	return &Val{T: vc.define("v_"+in.Name(), vc.sortOf(t), term), Ty: t}
}

func (vc *VC) convert(fr *Frame, in *ssa.Convert) *Val {
	x := vc.valueOf(fr, in.X)
	from, to := vc.sortOf(in.X.Type()), vc.sortOf(in.Type())
	switch {
	case from == "Int" && to == "Int":
		if _, _, ok := intRange(in.Type()); ok {
			// pointer <-> unsafe.Pointer conversions keep the value
			if _, _, okf := intRange(in.X.Type()); okf {
				return vc.named(in, vc.wrapInt(x.T, in.Type()), in.Type())
			}
		}
		nv := *x
		nv.Ty = in.Type()
		return &nv
	case from == "Int" && to == "Real":
		return &Val{T: "(to_real " + x.T + ")", Ty: in.Type()}
	case from == "Real" && to == "Int":
		// truncation toward zero; out-of-range conversions are implementation-defined
		tr := fmt.Sprintf("(ite (>= %s 0.0) (to_int %s) (- (to_int (- %s))))", x.T, x.T, x.T)
		return vc.named(in, vc.wrapInt(tr, in.Type()), in.Type())
	case from == "Real" && to == "Real":
		nv := *x
		nv.Ty = in.Type()
		return &nv
	case from == "Str" && to == "Slice":
		// []byte(s): fresh array with the string's bytes
		et := in.Type().Underlying().(*types.Slice).Elem()
		a := vc.allocRef("bytes")
		hn, hs := vc.elemHeap(et)
		arr := vc.fresh("bytesOf", "(Array Int "+vc.sortOf(et)+")")
		vc.emit("(assert (forall ((i Int)) (=> (and (<= 0 i) (< i (slen %s))) (= (select %s i) (sat %s i)))))", x.T, arr, x.T)
		vc.set(hn, hs, fmt.Sprintf("(store %s %s %s)", vc.get(hn, hs), a, arr))
		if vc.sortOf(et) == "Int" {
			// string([]byte(s)) == s
			vc.assume(fmt.Sprintf("(= (%s %s 0 (slen %s)) %s)", vc.bytes2str(), arr, x.T, x.T))
		}
		return &Val{T: fmt.Sprintf("(mk_slice %s 0 (slen %s) (slen %s))", a, x.T, x.T), Ty: in.Type()}
	case from == "Slice" && to == "Str":
		s := vc.fresh("strOf", "Str")
		vc.assume(fmt.Sprintf("(= (slen %s) (s_len %s))", s, x.T))
		et := in.X.Type().Underlying().(*types.Slice).Elem()
		hn, hs := vc.elemHeap(et)
		if vc.sortOf(et) == "Int" {
			vc.emit("(assert (forall ((i Int)) (=> (and (<= 0 i) (< i (s_len %s))) (= (sat %s i) (select (select %s (s_arr %s)) (+ (s_off %s) i))))))", x.T, s, vc.get(hn, hs), x.T, x.T)
			vc.assume(fmt.Sprintf("(= (%s (select %s (s_arr %s)) (s_off %s) (s_len %s)) %s)", vc.bytes2str(), vc.get(hn, hs), x.T, x.T, x.T, s))
		}
		return &Val{T: s, Ty: in.Type()}
	case from == "Int" && to == "Str":
		s := vc.fresh("strOfRune", "Str")
		return &Val{T: s, Ty: in.Type()}
	}
	vc.errorf("%s: unsupported conversion %s -> %s", vc.p.fset.Position(in.Pos()), in.X.Type(), in.Type())
	return &Val{T: vc.fresh("conv", to), Ty: in.Type()}
}

func (vc *VC) makeInterface(fr *Frame, in *ssa.MakeInterface) *Val {
	x := vc.valueOf(fr, in.X)
	return vc.boxValue(x, in.X.Type(), in.Type())
}

func (vc *VC) boxValue(x *Val, dyn types.Type, ifaceT types.Type) *Val {
	tag := vc.typeTag(dyn)
	vc.emitTagFacts()
	switch dyn.Underlying().(type) {
	case *types.Pointer, *types.Map, *types.Chan, *types.Signature:
		if x.T == "" {
			vc.errorf("address known only at translation time converted to an interface (outside subset)")
			return &Val{T: vc.fresh("iface", "Iface"), Ty: ifaceT}
		}
		return &Val{T: fmt.Sprintf("(mk_iface %d %s)", tag, x.T), Ty: ifaceT}
	}
	box, unbox := vc.boxFuns(dyn)
	vc.assume(fmt.Sprintf("(and (= (%s (%s %s)) %s) (>= (%s %s) 0))", unbox, box, x.T, x.T, box, x.T))
	return &Val{T: fmt.Sprintf("(mk_iface %d (%s %s))", tag, box, x.T), Ty: ifaceT}
}

func (vc *VC) typeAssert(fr *Frame, in *ssa.TypeAssert, pos token.Pos) *Val {
	x := vc.valueOf(fr, in.X)
	test := vc.tagTest(x.T, in.AssertedType)
	var payload *Val
	if _, isIface := in.AssertedType.Underlying().(*types.Interface); isIface {
		payload = &Val{T: x.T, Ty: in.AssertedType}
	} else {
		payload = vc.unboxIface(x.T, in.AssertedType)
	}
	if in.CommaOk {
		zero := vc.zeroValue(in.AssertedType)
		v := &Val{T: vc.define("ta_"+in.Name(), vc.sortOf(in.AssertedType), fmt.Sprintf("(ite %s %s %s)", test, payload.T, zero)), Ty: in.AssertedType}
		if rf := vc.rangeFact(v.T, v.Ty); rf != "" {
			vc.assume(rf)
		}
		return &Val{Tuple: []*Val{v, {T: test, Ty: types.Typ[types.Bool]}}, Ty: in.Type()}
	}
	if !vc.noSafety(fr, "typeassert") {
		vc.oblige("safety-typeassert", shortTypeName(in.AssertedType), test, pos, "type assertion cannot fail")
	}
	if rf := vc.rangeFact(payload.T, payload.Ty); rf != "" {
		vc.assume(rf)
	}
	return payload
}

func (vc *VC) sliceOp(fr *Frame, in *ssa.Slice, pos token.Pos) *Val {
	x := vc.valueOf(fr, in.X)
	var lo, hi, mx string
	if in.Low != nil {
		lo = vc.valueOf(fr, in.Low).T
	}
	if in.High != nil {
		hi = vc.valueOf(fr, in.High).T
	}
	if in.Max != nil {
		mx = vc.valueOf(fr, in.Max).T
	}
	if lo == "" {
		lo = "0"
	}
	switch u := in.X.Type().Underlying().(type) {
	case *types.Slice:
		if hi == "" {
			hi = fmt.Sprintf("(s_len %s)", x.T)
		}
		capT := fmt.Sprintf("(s_cap %s)", x.T)
		if mx == "" {
			mx = capT
		}
		if !vc.noSafety(fr, "bounds") {
			vc.oblige("safety-slice", "bounds", fmt.Sprintf("(and (<= 0 %s) (<= %s %s) (<= %s %s) (<= %s %s))", lo, lo, hi, hi, mx, mx, capT), pos, "slice bounds in range")
		}
		return vc.named(in, fmt.Sprintf("(mk_slice (s_arr %s) (+ (s_off %s) %s) (- %s %s) (- %s %s))", x.T, x.T, lo, hi, lo, mx, lo), in.Type())
	case *types.Basic:
		if hi == "" {
			hi = fmt.Sprintf("(slen %s)", x.T)
		}
		if !vc.noSafety(fr, "bounds") {
			vc.oblige("safety-slice", "bounds", fmt.Sprintf("(and (<= 0 %s) (<= %s %s) (<= %s (slen %s)))", lo, lo, hi, hi, x.T), pos, "string slice bounds in range")
		}
		r := vc.named(in, fmt.Sprintf("(ssub %s %s %s)", x.T, lo, hi), in.Type())
		vc.assume(fmt.Sprintf("(= (slen %s) (- %s %s))", r.T, hi, lo))
		vc.assume(fmt.Sprintf("(=> (and (= %s 0) (= %s (slen %s))) (= %s %s))", lo, hi, x.T, r.T, x.T))
		return r
	case *types.Pointer:
		at := u.Elem().Underlying().(*types.Array)
		n := strconv.FormatInt(at.Len(), 10)
		if hi == "" {
			hi = n
		}
		if mx == "" {
			mx = n
		}
		if !vc.noSafety(fr, "bounds") {
			vc.oblige("safety-slice", "bounds", fmt.Sprintf("(and (<= 0 %s) (<= %s %s) (<= %s %s) (<= %s %s))", lo, lo, hi, hi, mx, mx, n), pos, "slice bounds in range")
		}
		if x.T == "" && x.Loc != nil && x.Loc.Kind == RElem {
			// an array that is an element of a slice (e.g. hashPrefixes[i][:]):
			// the bytes of such arrays are not tracked; the slice denotes an
			// abstract buffer of the right length
			buf := vc.allocRef("elemarr")
			vc.used.Assumes["the contents of arrays stored as slice elements are not tracked (reads give arbitrary values, writes are not recorded)"] = true
			return vc.named(in, fmt.Sprintf("(mk_slice %s %s (- %s %s) (- %s %s))", buf, lo, hi, lo, mx, lo), in.Type())
		}
		if x.T == "" {
			vc.errorf("%s: slicing an array that is a local variable or a struct field (outside subset)", vc.p.fset.Position(pos))
			return &Val{T: vc.fresh("slice", "Slice"), Ty: in.Type()}
		}
		vc.nilCheck(fr, x.T, pos, "array pointer")
		r := vc.named(in, fmt.Sprintf("(mk_slice %s %s (- %s %s) (- %s %s))", x.T, lo, hi, lo, mx, lo), in.Type())
		if c, ok := constIntTerm(lo); ok {
			if h, ok2 := constIntTerm(hi); ok2 {
				vc.lenHint[r.T] = int(h - c)
			}
		}
		return r
	}
	vc.errorf("%s: unsupported slice operand %s", vc.p.fset.Position(pos), in.X.Type())
	return &Val{T: vc.fresh("slice", "Slice"), Ty: in.Type()}
}

func constIntTerm(s string) (int64, bool) {
	n, err := strconv.ParseInt(s, 10, 64)
	return n, err == nil
}

func (vc *VC) lookup(fr *Frame, in *ssa.Lookup, pos token.Pos) *Val {
	x := vc.valueOf(fr, in.X)
	k := vc.valueOf(fr, in.Index)
	mt, isMap := in.X.Type().Underlying().(*types.Map)
	if !isMap {
		// string index
		vc.boundsCheck(fr, k.T, fmt.Sprintf("(slen %s)", x.T), pos)
		v := &Val{T: fmt.Sprintf("(sat %s %s)", x.T, k.T), Ty: in.Type()}
		vc.assume(vc.rangeFact(v.T, v.Ty))
		return v
	}
	dn, ds, vn, vs := vc.mapHeaps(mt)
	kt := vc.mapKey(mt, k.T)
	if kt != k.T {
		kt = vc.define("mk_"+in.Name(), vc.sortOf(mt.Key()), kt)
	}
	present := fmt.Sprintf("(select (select %s %s) %s)", vc.get(dn, ds), x.T, kt)
	val := fmt.Sprintf("(ite %s (select (select %s %s) %s) %s)", present, vc.get(vn, vs), x.T, kt, vc.zeroValue(mt.Elem()))
	v := &Val{T: vc.define("mv_"+in.Name(), vc.sortOf(mt.Elem()), val), Ty: mt.Elem()}
	vc.assume(vc.rangeFact(v.T, v.Ty))
	// a nil map has no entries
	vc.assume(fmt.Sprintf("(=> (= %s 0) (not %s))", x.T, present))
	if in.CommaOk {
		return &Val{Tuple: []*Val{v, {T: present, Ty: types.Typ[types.Bool]}}, Ty: in.Type()}
	}
	return v
}

func (vc *VC) mapStore(mt *types.Map, m, k, v string, pos token.Pos) {
	dn, ds, vn, vs := vc.mapHeaps(mt)
	vc.frameCheck(dn, m, pos)
	d := vc.get(dn, ds)
	k = vc.mapKey(mt, k)
	vc.set(dn, ds, fmt.Sprintf("(store %s %s (store (select %s %s) %s true))", d, m, d, m, k))
	vh := vc.get(vn, vs)
	vc.set(vn, vs, fmt.Sprintf("(store %s %s (store (select %s %s) %s %s))", vh, m, vh, m, k, v))
}

func (vc *VC) mapDelete(mt *types.Map, m, k string, pos token.Pos) {
	dn, ds, _, _ := vc.mapHeaps(mt)
	vc.frameCheck(dn, m, pos)
	d := vc.get(dn, ds)
	k = vc.mapKey(mt, k)
	// deleting from a nil map is a no-op
	vc.set(dn, ds, fmt.Sprintf("(ite (= %s 0) %s (store %s %s (store (select %s %s) %s false)))", m, d, d, m, d, m, k))
}

// Map and string iteration.  A map range keeps a ghost "seen" set: Next
// yields a key that is in the map and not yet seen; the loop ends when the
// seen set covers the domain.
func (vc *VC) rangeStart(fr *Frame, in *ssa.Range, pos token.Pos) {
	x := vc.valueOf(fr, in.X)
	mt, isMap := in.X.Type().Underlying().(*types.Map)
	if !isMap {
		vc.errorf("%s: range over string (outside subset)", vc.p.fset.Position(pos))
		fr.vals[in] = &Val{Ty: in.Type()}
		return
	}
	ks := vc.sortOf(mt.Key())
	name := fmt.Sprintf("L.%s.seen.%s", sanitize(fr.fn.Name()), in.Name())
	vc.set(name, "(Array "+ks+" Bool)", fmt.Sprintf("((as const (Array %s Bool)) false)", ks))
	fr.vals[in] = &Val{T: x.T, Ty: in.Type(), Path: name, TypeV: mt}
}

func (vc *VC) rangeNext(fr *Frame, in *ssa.Next, pos token.Pos) {
	it := vc.valueOf(fr, in.Iter)
	mt, ok := it.TypeV.(*types.Map)
	if !ok {
		vc.errorf("%s: next over unsupported iterator", vc.p.fset.Position(pos))
		fr.vals[in] = &Val{Tuple: []*Val{{T: "false", Ty: types.Typ[types.Bool]}, {T: "0", Ty: types.Typ[types.Int]}, {T: "0", Ty: types.Typ[types.Int]}}}
		return
	}
	ks := vc.sortOf(mt.Key())
	seenSort := "(Array " + ks + " Bool)"
	dn, ds, vn, vs := vc.mapHeaps(mt)
	seen := vc.get(it.Path, seenSort)
	dom := fmt.Sprintf("(select %s %s)", vc.get(dn, ds), it.T)
	okc := vc.fresh("range_ok", "Bool")
	k := vc.fresh("range_key", ks)
	// ok => key in domain and not seen; !ok => every key in the domain has been seen
	vc.assume(fmt.Sprintf("(=> %s (and (select %s %s) (not (select %s %s))))", okc, dom, k, seen, k))
	vc.emit("(assert (=> %s (=> (not %s) (forall ((q %s)) (=> (select %s q) (select %s q))))))", vc.reach, okc, ks, dom, seen)
	vc.assume(vc.rangeFact(k, mt.Key()))
	// a nil map has no entries to range over
	vc.assume(fmt.Sprintf("(=> (= %s 0) (not %s))", it.T, okc))
	v := fmt.Sprintf("(select (select %s %s) %s)", vc.get(vn, vs), it.T, k)
	vv := &Val{T: vc.define("range_val", vc.sortOf(mt.Elem()), v), Ty: mt.Elem()}
	vc.assume(vc.rangeFact(vv.T, vv.Ty))
	vc.set(it.Path, seenSort, fmt.Sprintf("(ite %s (store %s %s true) %s)", okc, seen, k, seen))
	fr.vals[in] = &Val{Tuple: []*Val{{T: okc, Ty: types.Typ[types.Bool]}, {T: k, Ty: mt.Key()}, vv}, Ty: in.Type()}
}

func (vc *VC) runDefers(fr *Frame, in *ssa.RunDefers) {
	pos := vc.posOf(in)
	for i := len(fr.defers) - 1; i >= 0; i-- {
		d := fr.defers[i]
		if d.block == in.Block() || d.block.Dominates(in.Block()) {
			vc.execCall(fr, d.call, d.instr, pos)
			continue
		}
		// conditional defer: execute under its guard and merge
		before := vc.st.clone()
		saveReach := vc.reach
		g := vc.define("defer_guard", "Bool", d.reach)
		vc.reach = andTerms(saveReach, g)
		vc.execCall(fr, d.call, d.instr, pos)
		after := vc.st
		vc.reach = saveReach
		vc.st = vc.mergeStates([]string{g, "true"}, []*State{after, before})
	}
}

type bigInt struct{}

func (*bigInt) lsh(n int64) string {
	s := "1"
	// small helper without math/big import churn
	v := uint64(1)
	if n < 63 {
		return strconv.FormatUint(v<<uint(n), 10)
	}
	if n == 63 {
		return "9223372036854775808"
	}
	_ = s
	return "18446744073709551616"
}

// heapClosureAxiom states once per storage that the ENTRY heap is closed under
// entry allocation: every reference stored in it was allocated before the
// function under verification started.
func (vc *VC) heapClosureAxiom(l *Loc) {
	if l.Kind != RField && l.Kind != RCell && l.Kind != RElem {
		return
	}
	if len(l.Path) > 0 {
		return
	}
	key := "closure:" + l.Heap
	if vc.declared[key] {
		return
	}
	srt := vc.rootStorageSort(l)
	h0 := vc.entryVersion(l.Heap, srt)
	var body, pat, bind string
	if l.Kind == RElem {
		pat = fmt.Sprintf("(select (select %s r) i)", h0)
		bind = "((r Int) (i Int))"
	} else {
		pat = fmt.Sprintf("(select %s r)", h0)
		bind = "((r Int))"
	}
	body = vc.allocFact(pat, l.RootT, "alloc@0")
	if body == "" {
		return
	}
	vc.declared[key] = true
	vc.declLog = append(vc.declLog, key)
	save := vc.globalFact
	vc.globalFact = true
	// only objects that exist on entry: what a callee allocates later lives at
	// references >= alloc@0 and may point anywhere its contract says
	vc.emit("(assert (forall %s (! (=> (and (< 0 r) (< r alloc@0)) %s) :pattern (%s))))", bind, body, pat)
	vc.globalFact = save
}

var freshNumRe = regexp.MustCompile(`!(\d+)`)

// invariantIndices returns the distinct index terms of the writes when all of
// them are non-empty and mention only symbols introduced before the loop
// (counter below start); nil otherwise.
func invariantIndices(idxs []string, start int) []string {
	if len(idxs) == 0 {
		return nil
	}
	seen := map[string]bool{}
	var out []string
	for _, ix := range idxs {
		if ix == "" {
			return nil
		}
		for _, m := range freshNumRe.FindAllStringSubmatch(ix, -1) {
			n, _ := strconv.Atoi(m[1])
			if n > start {
				return nil
			}
		}
		if !seen[ix] {
			seen[ix] = true
			out = append(out, ix)
		}
	}
	if len(out) > 4 {
		return nil
	}
	return out
}

// Fixed-size arrays are SMT arrays over all integers; Go compares and hashes
// only the N elements.  arrCanon rebuilds an array value from its N elements
// on a constant-zero base, so that two Go-equal arrays become the same SMT
// value (used for map keys); arrEq is the element-wise comparison.  Both are
// exact for arrays of at most maxArrUnroll scalar elements; larger arrays or
// arrays of aggregates are outside the subset.
const maxArrUnroll = 64

func (vc *VC) arrUnrollable(t types.Type) (*types.Array, bool) {
	at, ok := t.Underlying().(*types.Array)
	if !ok {
		return nil, false
	}
	if at.Len() > maxArrUnroll {
		return at, false
	}
	switch vc.sortOf(at.Elem()) {
	case "Int", "Bool", "Str":
		return at, true
	}
	return at, false
}

// arrSel is element i of an array term; for the store chains built here the
// element is read off directly instead of leaving the reduction to the solver.
func (vc *VC) arrSel(term string, i int64) string {
	if es, ok := vc.arrElems[term]; ok && i >= 0 && i < int64(len(es)) {
		return es[i]
	}
	return fmt.Sprintf("(select %s %d)", term, i)
}

func (vc *VC) arrChain(t types.Type, at *types.Array, elems []string) string {
	r := fmt.Sprintf("((as const %s) %s)", vc.sortOf(t), vc.zeroValue(at.Elem()))
	for i, e := range elems {
		r = fmt.Sprintf("(store %s %d %s)", r, i, e)
	}
	if vc.arrElems == nil {
		vc.arrElems = map[string][]string{}
	}
	vc.arrElems[r] = elems
	return r
}

func (vc *VC) arrCanon(term string, t types.Type) string {
	at, ok := vc.arrUnrollable(t)
	if at == nil {
		return term
	}
	if !ok {
		vc.errorf("array of type %s used as a map key (more than %d elements or aggregate elements: outside subset)", t, maxArrUnroll)
		return term
	}
	if es, known := vc.arrElems[term]; known && int64(len(es)) == at.Len() {
		return term
	}
	var elems []string
	for i := int64(0); i < at.Len(); i++ {
		elems = append(elems, vc.arrSel(term, i))
	}
	return vc.arrChain(t, at, elems)
}

// arrWindow is the array value made of n elements of arr starting at off.
func (vc *VC) arrWindow(arr, off string, t types.Type) string {
	at, ok := vc.arrUnrollable(t)
	if at == nil || !ok {
		vc.errorf("window of array type %s (more than %d elements or aggregate elements: outside subset)", t, maxArrUnroll)
		return arr
	}
	var elems []string
	offN, offLit := strconv.ParseInt(off, 10, 64)
	for i := int64(0); i < at.Len(); i++ {
		if offLit == nil {
			elems = append(elems, vc.arrSel(arr, offN+i))
		} else {
			elems = append(elems, fmt.Sprintf("(select %s (+ %s %d))", arr, off, i))
		}
	}
	return vc.arrChain(t, at, elems)
}

func (vc *VC) arrEq(x, y string, t types.Type) string {
	at, ok := vc.arrUnrollable(t)
	if at == nil {
		return fmt.Sprintf("(= %s %s)", x, y)
	}
	if !ok {
		vc.errorf("comparison of arrays of type %s (more than %d elements or aggregate elements: outside subset)", t, maxArrUnroll)
		return fmt.Sprintf("(= %s %s)", x, y)
	}
	if at.Len() == 0 {
		return "true"
	}
	var cs []string
	for i := int64(0); i < at.Len(); i++ {
		cs = append(cs, fmt.Sprintf("(= %s %s)", vc.arrSel(x, i), vc.arrSel(y, i)))
	}
	if len(cs) == 1 {
		return cs[0]
	}
	return "(and " + strings.Join(cs, " ") + ")"
}

// mapKey is the SMT term under which key k of a map of type mt is stored.
func (vc *VC) mapKey(mt *types.Map, k string) string {
	if _, isArr := mt.Key().Underlying().(*types.Array); isArr {
		return vc.arrCanon(k, mt.Key())
	}
	return k
}

// bytes2str(content, off, len) is the string made of len bytes of an array's
// content from off on: an uninterpreted function (so equal contents give equal
// strings; nothing else is known about it), tied to the []byte(s) and
// string(b) conversions.  strof(b) in contracts.
func (vc *VC) bytes2str() string {
	if !vc.declared["bytes2str"] {
		vc.declare("bytes2str", "(declare-fun bytes2str ((Array Int Int) Int Int) Str)")
	}
	return "bytes2str"
}

// markIndex: idx(j) in a contract is the marker (jmark j), an uninterpreted
// predicate that is used in triggers only; every slice index the code
// evaluates (and the position an append writes to) is marked, so that a
// quantified fact with the trigger {.., idx(j)} is instantiated at the indices
// the program touches.  (Element reads themselves are poor triggers: their
// index terms are sums, which the solvers rewrite.)
func (vc *VC) markIndex(t string) {
	if !specUsesIdx {
		return
	}
	vc.assume(fmt.Sprintf("(%s %s)", vc.jmark(), t))
}

func (vc *VC) jmark() string {
	if !vc.declared["jmark"] {
		vc.declare("jmark", "(declare-fun jmark (Int) Bool)")
	}
	return "jmark"
}

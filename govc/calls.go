package main

// Calls: contracts, interface contracts, inlining, built-ins, locks, havoc.

import (
	"strconv"
	"path/filepath"
	"os"
	"fmt"
	"go/token"
	"go/types"
	"sort"
	"strings"

	"golang.org/x/tools/go/ssa"
)

func (vc *VC) resultOf(sig *types.Signature, mk func(i int, t types.Type) *Val) *Val {
	n := sig.Results().Len()
	switch n {
	case 0:
		return &Val{Ty: types.NewTuple()}
	case 1:
		return mk(0, sig.Results().At(0).Type())
	}
	var vs []*Val
	for i := 0; i < n; i++ {
		vs = append(vs, mk(i, sig.Results().At(i).Type()))
	}
	return &Val{Tuple: vs, Ty: sig.Results()}
}

func (vc *VC) freshResult(sig *types.Signature, hint string) *Val {
	return vc.resultOf(sig, func(i int, t types.Type) *Val {
		v := &Val{T: vc.fresh(fmt.Sprintf("%s_r%d", hint, i), vc.sortOf(t)), Ty: t}
		vc.valueFacts(v.T, t)
		return v
	})
}

// havocAll forgets everything about heap, globals and ghost state.
func (vc *VC) havocAll(why string) {
	vc.havocEverything(why, false)
}

// havocHeap forgets heap and globals but keeps ghost state.
func (vc *VC) havocHeap(why string) {
	vc.havocEverything(why, true)
}

func (vc *VC) havocEverything(why string, keepGhost bool) {
	if vc.discovery > 0 {
		keep := map[string]bool{}
		for k := range vc.keepHeaps {
			keep[k] = true
		}
		vc.discHavocs = append(vc.discHavocs, havocRec{keepGhost: keepGhost, keep: keep})
	}
	if keepGhost {
		if vc.checkFrame && !vc.modAll && !vc.modHeap && vc.discovery == 0 {
			vc.oblige("frame", "havoc-heap", "false", token.NoPos, "a callee that may change the whole heap is called ("+why+"), so the function must declare `modifies heap`")
		}
		// pin the current versions of all ghost variables
		for name, g := range vc.p.db.Ghosts {
			t := vc.tryResolveType(g.Type, g.Pkg, g.Imports)
			if t == nil {
				// the ghost's type lives in a package that is not part of this load
				continue
			}
			k := "G." + name
			if _, ok := vc.st.m[k]; !ok {
				vc.st.m[k] = vc.get(k, vc.sortOf(t))
			}
		}
	} else if vc.checkFrame && !vc.modAll && vc.discovery == 0 {
		vc.oblige("frame", "havoc", "false", token.NoPos, "code without a contract is called ("+why+"), so the function must declare `modifies *`")
	}
	vc.nfresh++
	ep := fmt.Sprintf("e%d", vc.nfresh)
	oldAlloc := vc.get("alloc", "Int")
	// immutable fields keep their values: pin them before the epoch changes
	for k := range vc.immutableHeaps() {
		if _, ok := vc.st.m[k]; !ok {
			if srt, known := vc.p.storageSort[k]; known {
				vc.st.m[k] = vc.get(k, srt)
			}
		}
	}
	if vc.checkFrame && vc.discovery == 0 {
		for k := range vc.preserveSelf {
			if !vc.keepHeaps[k] && !vc.immutableHeaps()[k] {
				vc.oblige("frame", "preserves:"+k, "false", token.NoPos, "a callee may change "+k+" ("+why+"), which the contract promises to preserve")
			}
		}
	}
	for k := range vc.keepHeaps {
		if _, ok := vc.st.m[k]; !ok {
			if srt, known := vc.p.storageSort[k]; known {
				vc.st.m[k] = vc.get(k, srt)
			}
		}
	}
	for k := range vc.st.m {
		if heapLike(k) && !(keepGhost && strings.HasPrefix(k, "G.")) && !vc.immutable[k] && !vc.keepHeaps[k] {
			delete(vc.st.m, k)
		}
	}
	vc.st.epoch = ep
	vc.havocStorage("alloc", "Int")
	vc.emit("(assert (>= %s %s))", vc.st.m["alloc"], oldAlloc)
}

// preservedHeaps evaluates the `preserves` entries of a contract: whole
// storages that survive its `modifies heap`.
func (vc *VC) preservedHeaps(spec *FuncSpec, env *Env) map[string]bool {
	if len(spec.Preserves) == 0 {
		return nil
	}
	out := map[string]bool{}
	for _, cl := range spec.Preserves {
		locs, err := vc.evalModEntry(cl.Expr, env)
		if err != nil {
			vc.errorf("%s:%d: preserves %s: %v", cl.File, cl.Line, cl.Src, err)
			continue
		}
		for _, m := range locs {
			if m.Idx != "" {
				vc.errorf("%s:%d: preserves %s: only whole storages (T.f, T.*) can be preserved", cl.File, cl.Line, cl.Src)
				continue
			}
			out[m.Heap] = true
			if m.Sort != "" {
				// so that the storage can be pinned across the havoc even when
				// nothing has read it yet in this function
				vc.recordSort(m.Heap, m.Sort)
			}
		}
	}
	return out
}

func calleeShort(name string) string {
	name = strings.ReplaceAll(name, "github.com/AdguardTeam/AdGuardDNS/internal/", "")
	name = strings.ReplaceAll(name, "github.com/AdguardTeam/", "")
	name = strings.ReplaceAll(name, "github.com/", "")
	return name
}

func (vc *VC) execCall(fr *Frame, c *ssa.CallCommon, site ssa.Instruction, pos token.Pos) *Val {
	sig := c.Signature()
	var args []*Val
	for _, a := range c.Args {
		args = append(args, vc.valueOf(fr, a))
	}
	vc.atCallAsserts(fr, c, args, site, pos)
	if c.IsInvoke() {
		recv := vc.valueOf(fr, c.Value)
		return vc.invoke(fr, recv, c.Value.Type(), c.Method, sig, args, pos)
	}
	switch callee := c.Value.(type) {
	case *ssa.Builtin:
		return vc.builtin(fr, callee, c, args, site, pos)
	case *ssa.Function:
		return vc.callFunction(fr, callee, nil, args, sig, pos)
	case *ssa.MakeClosure:
		cv := vc.valueOf(fr, callee)
		return vc.callFunction(fr, cv.Clo.Fn, cv.Clo.Bindings, args, sig, pos)
	}
	fv := vc.valueOf(fr, c.Value)
	if fv.Clo != nil {
		return vc.callFunction(fr, fv.Clo.Fn, fv.Clo.Bindings, args, sig, pos)
	}
	// function value loaded from a field with a `field T.f calls F` directive
	if key := vc.fieldCallTarget(c.Value); key != "" {
		if fn := vc.p.funcs[key]; fn != nil {
			vc.used.Assumes["function field "+vc.fieldCallName(c.Value)+" holds "+calleeShort(key)+" bound to the object recorded in the ghost owner map"] = true
			recv := vc.fieldCallRecv(fr, c.Value)
			if recv != nil {
				return vc.callFunction(fr, fn, nil, append([]*Val{recv}, args...), fn.Signature, pos)
			}
		}
	}
	// a package-level function variable of a dependency (var Id = id) with an
	// assumed contract under the variable's name
	if u, ok := c.Value.(*ssa.UnOp); ok && u.Op == token.MUL {
		if g, ok := u.X.(*ssa.Global); ok && g.Pkg != nil {
			if sp, ok := vc.p.db.Funcs[g.Pkg.Pkg.Path()+"."+g.Name()]; ok && sp.Assumed {
				vc.used.Assumes["the function variable "+calleeShort(sp.Key)+" holds a function satisfying its assumed contract"] = true
				if sp.Pure && len(sp.Ensures) == 0 && len(sp.Requires) == 0 {
					vc.used.Pure[calleeShort(sp.Key)] = true
					return vc.freshResult(sig, g.Name())
				}
			}
		}
	}
	if n, ok := c.Value.Type().(*types.Named); ok && n.Obj().Pkg() != nil && n.Obj().Pkg().Path() == "context" && n.Obj().Name() == "CancelFunc" {
		vc.used.Assumes["calling a context.CancelFunc has no effect on the state the contracts talk about"] = true
		return &Val{Ty: types.NewTuple()}
	}
	if sig.Params().Len() == 0 && sig.Results().Len() == 0 && callsContextWith(fr.fn) {
		// `var cancel func()` filled from context.WithTimeout/WithCancel/WithDeadline
		vc.used.Assumes["a func() value called in "+shortFuncName(fr.fn)+" is the cancel function of a context created there; calling it has no effect on the state the contracts talk about"] = true
		return &Val{Ty: types.NewTuple()}
	}
	vc.used.Havocked["call of an unknown function value at "+vc.p.relPos(pos)] = true
	vc.havocAll("call through a function value")
	return vc.freshResult(sig, "dyncall")
}

// atCallAsserts checks the `atcall` assertions of the current function that
// name the callee of c.
func (vc *VC) atCallAsserts(fr *Frame, c *ssa.CallCommon, args []*Val, site ssa.Instruction, pos token.Pos) {
	vc.atPointAsserts(fr, c, "", args, site, pos)
}

// atPointAsserts: as atCallAsserts; with c == nil the program point is not a
// call but a map update, addressed in contracts as `atcall mapupdate ...` with
// arg0 = the map, arg1 = the key, arg2 = the value.
func (vc *VC) atPointAsserts(fr *Frame, c *ssa.CallCommon, pseudo string, args []*Val, site ssa.Instruction, pos token.Pos) {
	specFr := fr
	if (fr.spec == nil || len(fr.spec.AtCalls) == 0) && vc.top != nil && fr != vc.top && fr.fn.Parent() != nil {
		// a call inside a closure of the function under verification (run
		// inline, e.g. deferred): the function's atcall clauses apply
		specFr = vc.top
	}
	if specFr.spec == nil || len(specFr.spec.AtCalls) == 0 || site == nil {
		return
	}
	var name string
	if c == nil {
		name = pseudo
	} else if c.IsInvoke() {
		name = types.TypeString(c.Value.Type(), func(p *types.Package) string { return p.Name() }) + "." + c.Method.Name()
	} else if callee := c.StaticCallee(); callee != nil {
		name = callee.String()
	} else {
		return
	}
	// methods of instantiated generic types print as (*pkg.T[args]).M[args]
	if strings.HasSuffix(name, "]") {
		if i := strings.LastIndex(name, ")."); i >= 0 {
			if j := strings.Index(name[i:], "["); j >= 0 {
				name = name[:i+j]
			}
		}
	}
	for i, ac := range specFr.spec.AtCalls {
		if !(name == ac.Callee || strings.HasSuffix(name, "."+ac.Callee) || strings.HasSuffix(name, ")."+ac.Callee) || strings.HasSuffix(name, "/"+ac.Callee)) {
			continue
		}
		names := map[string]*Val{}
		vc.localNamesAt(fr, site, names)
		if specFr != fr {
			// the closure's own parameters and captured variables come first
			for k, v := range fr.names {
				if _, ok := names[k]; !ok {
					names[k] = v
				}
			}
		}
		if specFr != fr && specFr.curBlock != nil && len(specFr.curBlock.Instrs) > 0 {
			// locals of the enclosing function, as they stand where the closure runs
			outer := map[string]*Val{}
			vc.localNamesAt(specFr, specFr.curBlock.Instrs[len(specFr.curBlock.Instrs)-1], outer)
			for k, v := range outer {
				if _, ok := names[k]; !ok {
					names[k] = v
				}
			}
		}
		// inside a range loop: #i is the index of the last completed iteration
		// (as in the loop's invariants; the current one is #i + 1)
		if _, ok := names["#i"]; !ok {
			for h, li := range fr.loops {
				if !li.body[site.Block()] && h != site.Block() {
					continue
				}
				for _, in := range h.Instrs {
					phi, ok := in.(*ssa.Phi)
					if !ok {
						break
					}
					if phi.Comment == "rangeindex" {
						if v, ok := fr.vals[phi]; ok {
							if cur, has := names["#i"]; !has || cur == nil {
								names["#i"] = v
							}
						}
					}
				}
			}
		}
		// the call's operands: arg0 is the receiver of a method call
		k := 0
		if c != nil && c.IsInvoke() {
			names["arg0"] = vc.valueOf(fr, c.Value)
			k = 1
		}
		for i, a := range args {
			if a != nil && (a.T != "" || a.Loc == nil) {
				names[fmt.Sprintf("arg%d", i+k)] = a
			}
		}
		// locals that are not defined on this path stand for arbitrary values
		for name, vals := range specFr.dbg {
			if _, ok := names[name]; ok || len(vals) == 0 {
				continue
			}
			if _, ok := specFr.names[name]; ok {
				continue
			}
			t := vals[0].Type()
			names[name] = &Val{T: vc.fresh("undef_"+sanitize(name), vc.sortOf(t)), Ty: t}
		}
		env := vc.specEnv(specFr, names)
		if ac.Set != nil {
			vc.applyGhostSets(&FuncSpec{GhostSets: []*GhostSet{ac.Set}}, env, pos)
			continue
		}
		if vc.discovery > 0 {
			continue
		}
		for _, cj := range conjuncts(ac.Clause) {
			t, ok := vc.evalBool(cj, env)
			if !ok {
				continue
			}
			if ac.Assume {
				vc.assume(t)
				vc.used.Assumes["assumed before the call of "+ac.Callee+" in "+specFr.fn.String()+": "+cj.Src] = true
				continue
			}
			vc.oblige("atcall", vc.clauseLabel("atcall:"+ac.Callee, cj, i), t, pos, "holds right before the call of "+ac.Callee+": "+cj.Src)
		}
	}
}

func (vc *VC) fieldCallName(v ssa.Value) string {
	if u, ok := v.(*ssa.UnOp); ok {
		if fa, ok := u.X.(*ssa.FieldAddr); ok {
			st := fa.X.Type().Underlying().(*types.Pointer).Elem()
			return types.TypeString(st, nil) + "." + st.Underlying().(*types.Struct).Field(fa.Field).Name()
		}
	}
	return ""
}

func (vc *VC) fieldCallTarget(v ssa.Value) string {
	t := vc.p.db.FieldCalls[vc.fieldCallName(v)]
	if i := strings.Index(t, "\x00"); i >= 0 {
		return t[:i]
	}
	return t
}

func (vc *VC) fieldCallGhost(v ssa.Value) string {
	t := vc.p.db.FieldCalls[vc.fieldCallName(v)]
	if i := strings.Index(t, "\x00"); i >= 0 {
		return t[i+1:]
	}
	return ""
}

// fieldCallRecv returns the receiver bound into a function-valued field: the
// ghost map owner_<field>[object].
func (vc *VC) fieldCallRecv(fr *Frame, v ssa.Value) *Val {
	u := v.(*ssa.UnOp)
	fa := u.X.(*ssa.FieldAddr)
	obj := vc.valueOf(fr, fa.X)
	key := vc.fieldCallTarget(v)
	fn := vc.p.funcs[key]
	if fn == nil || fn.Signature.Recv() == nil || obj.T == "" {
		return nil
	}
	name := "G." + vc.fieldCallGhost(v)
	h := vc.get(name, "(Array Int Int)")
	return &Val{T: fmt.Sprintf("(select %s %s)", h, obj.T), Ty: fn.Signature.Recv().Type()}
}

func (vc *VC) invoke(fr *Frame, recv *Val, recvT types.Type, m *types.Func, sig *types.Signature, args []*Val, pos token.Pos) *Val {
	full := m.FullName() // e.g. (sync.Locker).Lock
	switch full {
	case "(sync.Locker).Lock":
		vc.lockOp(fr, recv, nil, "lock", pos)
		return &Val{Ty: types.NewTuple()}
	case "(sync.Locker).Unlock":
		vc.lockOp(fr, recv, nil, "unlock", pos)
		return &Val{Ty: types.NewTuple()}
	}
	if !vc.noSafety(fr, "nil") {
		vc.oblige("safety-nil", "invoke "+m.Name(), fmt.Sprintf("(not (= (i_tag %s) 0))", recv.T), pos, "method call on nil interface")
	}
	spec := vc.p.ifaceSpec(recvT, m)
	if spec != nil {
		vc.used.IfaceSpecs[calleeShort(spec.Key)] = true
		if spec.Pure && len(spec.Ensures) == 0 {
			return vc.freshResult(sig, m.Name())
		}
		names := vc.paramNames(spec, sig, "this")
		return vc.applyContract(fr, spec, calleeShort(spec.Key), sig, append([]*Val{recv}, args...), names, pos)
	}
	vc.used.Havocked["interface call "+calleeShort(full)+" (no interface contract)"] = true
	vc.havocAll("interface call " + full)
	return vc.freshResult(sig, m.Name())
}

// paramNames returns the names that specs use for the receiver and parameters.
func (vc *VC) paramNames(spec *FuncSpec, sig *types.Signature, recvDefault string) []string {
	if spec != nil && len(spec.Params) > 0 {
		return spec.Params
	}
	var names []string
	if sig.Recv() != nil {
		n := sig.Recv().Name()
		if n == "" || n == "_" || recvDefault == "this" {
			n = recvDefault
		}
		names = append(names, n)
	}
	for i := 0; i < sig.Params().Len(); i++ {
		n := sig.Params().At(i).Name()
		if n == "" || n == "_" {
			n = fmt.Sprintf("p%d", i)
		}
		names = append(names, n)
	}
	return names
}

func (vc *VC) resultNames(spec *FuncSpec, sig *types.Signature) []string {
	if spec != nil && len(spec.Results) > 0 {
		return spec.Results
	}
	var names []string
	for i := 0; i < sig.Results().Len(); i++ {
		n := sig.Results().At(i).Name()
		if n == "" || n == "_" {
			n = fmt.Sprintf("r%d", i)
			if sig.Results().Len() == 1 {
				n = "result"
			}
		}
		names = append(names, n)
	}
	return names
}

func (vc *VC) callFunction(fr *Frame, fn *ssa.Function, bindings []*Val, args []*Val, sig *types.Signature, pos token.Pos) *Val {
	name := fn.String()
	// bound method closures: (T).m$bound
	if strings.HasSuffix(fn.Name(), "$bound") && len(bindings) == 1 {
		if m, ok := fn.Object().(*types.Func); ok {
			recvT := bindings[0].Ty
			if _, isIface := recvT.Underlying().(*types.Interface); isIface {
				return vc.invoke(fr, bindings[0], recvT, m, m.Type().(*types.Signature), args, pos)
			}
			target := vc.p.prog.FuncValue(m)
			if target != nil {
				return vc.callFunction(fr, target, nil, append([]*Val{bindings[0]}, args...), target.Signature, pos)
			}
		}
	}
	if strings.HasSuffix(fn.Name(), "$thunk") {
		if m, ok := fn.Object().(*types.Func); ok {
			if target := vc.p.prog.FuncValue(m); target != nil {
				return vc.callFunction(fr, target, nil, args, target.Signature, pos)
			}
		}
	}
	if r, ok := vc.hardcoded(fr, fn, args, sig, pos); ok {
		return r
	}
	spec := vc.p.specFor(fn)
	if spec != nil && vc.top != nil && vc.top.fn != nil && vc.top.fn.Pkg != nil {
		if v, ok := vc.p.db.Views[vc.top.fn.Pkg.Pkg.Path()+"|"+spec.Key]; ok {
			spec = v
			vc.used.Assumes["calls of "+calleeShort(spec.Key)+" from this package use the package's own assumed view ("+filepath.Base(filepath.Dir(spec.File))+"/"+filepath.Base(spec.File)+fmt.Sprintf(":%d", spec.Line)+"), not the contract verified in its home package"] = true
		}
	}
	if spec != nil && !spec.Inline && !spec.Transparent {
		if spec.Pure && len(spec.Ensures) == 0 && len(spec.Requires) == 0 {
			vc.used.Pure[calleeShort(name)] = true
			return vc.freshResult(fn.Signature, fn.Name())
		}
		if spec.Assumed {
			vc.used.ExtContracts[calleeShort(name)] = true
		} else {
			vc.used.Contracts[calleeShort(name)] = true
		}
		names := vc.paramNames(spec, fn.Signature, "recv")
		if len(fn.Params) == len(args) && len(spec.Params) == 0 {
			names = nil
			for i, p := range fn.Params {
				n := p.Name()
				if n == "" || n == "_" {
					n = fmt.Sprintf("p%d", i)
				}
				names = append(names, n)
			}
		}
		// closures called with their bindings: expose free variables by name
		extra := map[string]*Val{}
		for i, b := range bindings {
			if i < len(fn.FreeVars) {
				extra[fn.FreeVars[i].Name()] = vc.freeVarSpecVal(b)
			}
		}
		vc.nameSigOverride = nameSig(fn)
		defer func() { vc.nameSigOverride = nil }()
		return vc.applyContractX(fr, spec, calleeShort(name), fn.Signature, args, names, extra, pos)
	}
	if (spec != nil && (spec.Inline || spec.Transparent)) || fn.Parent() != nil && bindings != nil || vc.isTransparent(fr, fn) {
		if vc.inlineDepth < 6 && len(fn.Blocks) > 0 {
			vc.used.Inlined[calleeShort(name)] = true
			return vc.inlineCall(fr, fn, args, bindings, pos)
		}
	}
	if fn.Parent() != nil && len(fn.Blocks) > 0 && vc.inlineDepth < 6 {
		// anonymous function without bindings
		vc.used.Inlined[calleeShort(name)] = true
		return vc.inlineCall(fr, fn, args, bindings, pos)
	}
	vc.used.Havocked["call of "+calleeShort(name)+" (no contract)"] = true
	vc.havocAll("call of " + calleeShort(name))
	return vc.freshResult(fn.Signature, fn.Name())
}

func (vc *VC) freeVarSpecVal(b *Val) *Val {
	if b.Loc != nil && b.T == "" {
		return &Val{Loc: b.Loc, Ty: b.Loc.targetType()}
	}
	// a captured variable that lives in a heap cell: the name denotes its value
	if pt, ok := b.Ty.Underlying().(*types.Pointer); ok && b.T != "" {
		et := pt.Elem()
		if _, isStruct := et.Underlying().(*types.Struct); !isStruct || vc.isOpaqueStruct(et) {
			if _, isArr := et.Underlying().(*types.Array); !isArr {
				hn, _ := vc.cellHeap(et)
				return &Val{Loc: &Loc{Kind: RCell, Heap: hn, Base: b.T, RootT: et}, Ty: et}
			}
		}
	}
	return b
}

// isTransparent: small, loop-free helper without contract, defined in the
// repository: its body is its semantics.
func (vc *VC) isTransparent(fr *Frame, fn *ssa.Function) bool {
	pkg := fn.Pkg
	if pkg == nil && fn.Origin() != nil {
		// an instance of a generic function: defined where its origin is
		pkg = fn.Origin().Pkg
	}
	if len(fn.Blocks) == 0 || pkg == nil {
		return false
	}
	path := pkg.Pkg.Path()
	if !strings.HasPrefix(path, "github.com/AdguardTeam/AdGuardDNS") {
		return false
	}
	if len(analyzeLoops(fn)) > 0 {
		return false
	}
	n := 0
	for _, b := range fn.Blocks {
		for _, in := range b.Instrs {
			if _, ok := in.(*ssa.DebugRef); ok {
				continue
			}
			n++
			switch in.(type) {
			case *ssa.Go, *ssa.Select, *ssa.Send, *ssa.MakeChan:
				return false
			}
		}
	}
	if n > 200 {
		return false
	}
	// no recursion
	for f := fr; f != nil; f = f.parent {
		if f.fn == fn {
			return false
		}
	}
	for _, f := range vc.inlineStack {
		if f == fn {
			return false
		}
	}
	return true
}

func (vc *VC) inlineCall(fr *Frame, fn *ssa.Function, args []*Val, bindings []*Val, pos token.Pos) *Val {
	vc.inlineDepth++
	vc.inlineStack = append(vc.inlineStack, fn)
	defer func() { vc.inlineDepth--; vc.inlineStack = vc.inlineStack[:len(vc.inlineStack)-1] }()
	nf := vc.newFrame(fn, nil)
	for i, p := range fn.Params {
		if i < len(args) {
			nf.vals[p] = args[i]
			nf.names[p.Name()] = args[i]
		}
	}
	for i, fv := range fn.FreeVars {
		if i < len(bindings) {
			nf.vals[fv] = bindings[i]
			nf.names[fv.Name()] = vc.freeVarSpecVal(bindings[i])
		}
	}
	saveReach := vc.reach
	vc.runBody(nf)
	if len(nf.rets) == 0 {
		vc.reach = "false"
		return vc.freshResult(fn.Signature, fn.Name())
	}
	var conds []string
	var states []*State
	for _, r := range nf.rets {
		conds = append(conds, r.reach)
		states = append(states, r.st)
	}
	if len(nf.rets) == 1 {
		vc.st = nf.rets[0].st
		vc.reach = nf.rets[0].reach
		if len(fn.Blocks) == 1 {
			vc.reach = saveReach
		}
		return vc.resultOf(fn.Signature, func(i int, t types.Type) *Val { return nf.rets[0].results[i] })
	}
	vc.st = vc.mergeStates(conds, states)
	vc.reach = vc.define("ret_"+fn.Name(), "Bool", orTerms(conds))
	return vc.resultOf(fn.Signature, func(i int, t types.Type) *Val {
		same := true
		for _, r := range nf.rets {
			if r.results[i].T != nf.rets[0].results[i].T || r.results[i].T == "" {
				same = false
			}
		}
		if same {
			return nf.rets[0].results[i]
		}
		term := nf.rets[len(nf.rets)-1].results[i].T
		for j := len(nf.rets) - 2; j >= 0; j-- {
			if nf.rets[j].results[i].T == "" {
				vc.errorf("%s: inlined function returns an address known only at translation time", vc.p.fset.Position(pos))
			}
			term = fmt.Sprintf("(ite %s %s %s)", conds[j], nf.rets[j].results[i].T, term)
		}
		return &Val{T: vc.define("ret_"+fn.Name(), vc.sortOf(t), term), Ty: t}
	})
}

func (vc *VC) applyContract(fr *Frame, spec *FuncSpec, name string, sig *types.Signature, args []*Val, names []string, pos token.Pos) *Val {
	return vc.applyContractX(fr, spec, name, sig, args, names, nil, pos)
}

// applyContractX uses a callee's contract at a call site: requires become
// obligations, the modifies set is havocked, ensures are assumed.
func (vc *VC) applyContractX(fr *Frame, spec *FuncSpec, name string, sig *types.Signature, args []*Val, names []string, extra map[string]*Val, pos token.Pos) *Val {
	pre := vc.st.clone()
	env := &Env{vars: map[string]*Val{}, st: vc.st, old: pre, pkg: spec.Pkg, imports: spec.Imports}
	for k, v := range extra {
		env.vars[k] = v
	}
	for i, a := range args {
		if i < len(names) {
			if a.T == "" && a.Loc != nil {
				// address argument (e.g. &x.f): usable in specs through deref()
				env.vars[names[i]] = a
				continue
			}
			env.vars[names[i]] = a
		}
	}
	for _, l := range spec.Lets {
		if v, ok := vc.evalLet(l, env); ok {
			env.vars[l.Name] = v
		}
	}
	for i, rq0 := range spec.Requires {
		for _, rq := range conjuncts(rq0) {
			lbl := vc.clauseLabel("requires", rq, i)
			if rq != rq0 && rq0.Label == "" {
				lbl = fmt.Sprintf("requires:%d.%s", i+1, rq.Label)
			}
			if t, ok := vc.evalBool(rq, env); ok {
				vc.oblige("call-pre", name+":"+lbl, t, pos, "precondition of "+name+": "+rq.Src)
			}
		}
	}
	for _, sp := range spec.Spawns {
		if fv, ok := env.vars[sp]; ok {
			vc.checkSpawn(fr, fv, pos)
		}
	}
	if contains(spec.LockHeld, "*") && !vc.lockChecksOff && len(vc.st.held) == 0 {
		vc.oblige("lock", "callee-needs-lock:"+name, "false", pos, name+" must be called with the protecting lock held")
	}
	// A callee whose contract speaks about locked(...) acquires a lock inside:
	// its action starts from a state in which the lock-protected locations are
	// whatever the other goroutines left there (invariant assumed).
	if specUsesLocked(spec) && len(args) > 0 {
		for _, ls := range vc.p.db.Locks {
			rt := args[0].Ty
			if p, ok := rt.Underlying().(*types.Pointer); ok {
				rt = p.Elem()
			}
			if namedKey(rt) != ls.TypeKey {
				continue
			}
			for _, m := range vc.lockProtected(ls, args[0]) {
				vc.havocLocNoFrame(m)
			}
			lenv := vc.lockEnv(ls, args[0], pre)
			for _, inv := range ls.Invariant {
				if t, ok := vc.evalBool(inv, lenv); ok {
					vc.assume(t)
				}
			}
			if fr.spec != nil && len(fr.spec.Rely) > 0 && vc.top != nil {
				renv := vc.specEnv(vc.top, nil)
				renv.old = pre
				for _, rc := range vc.top.spec.Rely {
					if t, ok := vc.evalBool(rc, renv); ok {
						vc.assume(t)
						vc.used.Assumes["rely (ownership) in "+shortFuncName(vc.top.fn)+": "+rc.Src] = true
					}
				}
			}
		}
		vc.lockedSt = vc.st.clone()
		env.st = vc.st
	}
	// frame
	if spec.ModAll {
		vc.havocAll("callee " + name + " declares modifies *")
	} else {
		if spec.ModHeap {
			vc.keepHeaps = vc.preservedHeaps(spec, env)
			vc.havocHeap("callee " + name + " declares modifies heap")
			vc.keepHeaps = nil
		}
		locs := vc.evalModifies(spec, env)
		for _, m := range locs {
			vc.frameCheck(m.Heap, m.Idx, pos)
		}
		// a callee that changes lock-protected ghost state (e.g. the contents
		// of a shared cache) must be called with one of the protecting locks
		// held, shared or exclusive
		if !vc.lockChecksOff && vc.discovery == 0 && spec.NeedsLock {
			// (only operations whose contract says `needslock`: e.g. storing
			// into a cache whose contents a lock invariant speaks about)
			prot := vc.p.protectedHeaps(vc)
			done := map[string]bool{}
			for _, m := range locs {
				if !strings.HasPrefix(m.Heap, "G.") || done[m.Heap] {
					continue
				}
				specs := prot[m.Heap]
				if len(specs) == 0 {
					continue
				}
				done[m.Heap] = true
				held := false
				for id := range vc.st.held {
					for _, ls := range specs {
						if strings.HasPrefix(strings.TrimSuffix(id, "#r"), ls.TypeKey+"."+strings.Join(ls.Path, ".")+"@") {
							held = true
						}
					}
				}
				if !held {
					vc.oblige("lock", "held-for:"+m.Heap+":"+name, "false", pos, name+" changes lock-protected state "+m.Heap+" and must be called with a protecting lock held")
				}
			}
		}
		for _, m := range locs {
			vc.havocLoc(m)
		}
	}
	// the callee may allocate
	{
		oldAlloc := vc.get("alloc", "Int")
		vc.havocStorage("alloc", "Int")
		vc.emit("(assert (>= %s %s))", vc.st.m["alloc"], oldAlloc)
	}
	// results
	rnames := vc.resultNames(spec, sig)
	if vc.nameSigOverride != nil {
		rnames = vc.resultNames(spec, vc.nameSigOverride)
		vc.nameSigOverride = nil
	}
	res := vc.resultOf(sig, func(i int, t types.Type) *Val {
		v := &Val{T: vc.fresh(sanitize(lastSeg(name))+"_"+rnames[i], vc.sortOf(t)), Ty: t}
		vc.valueFacts(v.T, t)
		return v
	})
	post := &Env{vars: map[string]*Val{}, st: vc.st, old: pre, pkg: spec.Pkg, imports: spec.Imports}
	for k, v := range env.vars {
		post.vars[k] = v
	}
	if res.Tuple != nil {
		for i, r := range res.Tuple {
			post.vars[rnames[i]] = r
			post.vars[fmt.Sprintf("r%d", i)] = r
		}
	} else if sig.Results().Len() == 1 {
		post.vars[rnames[0]] = res
		post.vars["result"] = res
		post.vars["r0"] = res
	}
	for _, en := range spec.Ensures {
		if t, ok := vc.evalBool(en, post); ok {
			vc.assume(t)
		}
	}
	return res
}

func lastSeg(s string) string {
	if i := strings.LastIndexAny(s, "./)"); i >= 0 && i+1 < len(s) {
		return s[i+1:]
	}
	return s
}

func (vc *VC) evalLet(l *LetSpec, env *Env) (v *Val, ok bool) {
	defer func() {
		if r := recover(); r != nil {
			if ee, isEE := r.(evalError); isEE {
				vc.errorf("let %s: %s", l.Name, ee.msg)
				v, ok = nil, false
				return
			}
			panic(r)
		}
	}()
	e := env
	if l.Old && env.old != nil {
		e = env.inState(env.old)
	}
	x := vc.eval(l.Expr, e)
	if x.IsType {
		return x, true
	}
	if x.T == "" {
		return x, true
	}
	return &Val{T: vc.define("let_"+l.Name, vc.sortOf(x.Ty), x.T), Ty: x.Ty, Loc: x.Loc}, true
}

// evalModifies evaluates the modifies clause of spec in env.
func (vc *VC) evalModifies(spec *FuncSpec, env *Env) []ModLoc {
	var out []ModLoc
	for _, cl := range spec.Modifies {
		locs, err := vc.evalModEntry(cl.Expr, env)
		if err != nil {
			vc.errorf("%s:%d: modifies %s: %v", cl.File, cl.Line, cl.Src, err)
			continue
		}
		out = append(out, locs...)
	}
	return out
}

func (vc *VC) evalModEntry(e *SExpr, env *Env) (locs []ModLoc, err error) {
	defer func() {
		if r := recover(); r != nil {
			if ee, ok := r.(evalError); ok {
				err = fmt.Errorf("%s", ee.msg)
				return
			}
			panic(r)
		}
	}()
	env.where = "modifies " + e.String()
	// x.* : all fields of the struct x points to
	if e.Op == "field" && e.Name == "*" {
		x := vc.eval(e.Args[0], env)
		if x.IsType {
			st, ok := x.TypeV.Underlying().(*types.Struct)
			if !ok {
				return nil, fmt.Errorf("%s is not a struct type", x.TypeV)
			}
			for i := 0; i < st.NumFields(); i++ {
				hn, hs := vc.fieldHeap(x.TypeV, st.Field(i))
				locs = append(locs, ModLoc{Heap: hn, Sort: hs})
			}
			return locs, nil
		}
		pt, ok := x.Ty.Underlying().(*types.Pointer)
		if !ok {
			return nil, fmt.Errorf("x.* needs a pointer to struct")
		}
		st, ok := pt.Elem().Underlying().(*types.Struct)
		if !ok {
			return nil, fmt.Errorf("x.* needs a pointer to struct")
		}
		for i := 0; i < st.NumFields(); i++ {
			hn, hs := vc.fieldHeap(pt.Elem(), st.Field(i))
			locs = append(locs, ModLoc{Heap: hn, Idx: x.T, Sort: hs})
		}
		return locs, nil
	}
	// T.f : the whole field heap
	if e.Op == "field" {
		if tv := vc.tryType(e.Args[0], env); tv != nil {
			_, fv := vc.fieldPathAnyPkg(tv, e.Name)
			if fv == nil {
				return nil, fmt.Errorf("no field %s in %s", e.Name, tv)
			}
			hn, hs := vc.fieldHeap(tv, fv)
			return []ModLoc{{Heap: hn, Sort: hs}}, nil
		}
	}
	if e.Op == "call" && e.Args[0].Op == "ident" {
		switch e.Args[0].Name {
		case "elems":
			s := vc.eval(e.Args[1], env)
			st, ok := s.Ty.Underlying().(*types.Slice)
			if !ok {
				return nil, fmt.Errorf("elems() needs a slice")
			}
			hn, hs := vc.elemHeap(st.Elem())
			return []ModLoc{{Heap: hn, Idx: fmt.Sprintf("(s_arr %s)", s.T), Sort: hs}}, nil
		case "allelems":
			tv := vc.tryType(e.Args[1], env)
			if tv == nil {
				return nil, fmt.Errorf("allelems() needs an element type")
			}
			hn, hs := vc.elemHeap(tv)
			return []ModLoc{{Heap: hn, Sort: hs}}, nil
		case "allcells":
			tv := vc.tryType(e.Args[1], env)
			if tv == nil {
				return nil, fmt.Errorf("allcells() needs a type")
			}
			hn, hs := vc.cellHeap(tv)
			return []ModLoc{{Heap: hn, Sort: hs}}, nil
		case "allmaps":
			tv := vc.tryType(e.Args[1], env)
			if tv == nil {
				return nil, fmt.Errorf("allmaps() needs a map type")
			}
			mt, ok := tv.Underlying().(*types.Map)
			if !ok {
				return nil, fmt.Errorf("allmaps() needs a map type")
			}
			dn, ds, vn, vs := vc.mapHeaps(mt)
			return []ModLoc{{Heap: dn, Sort: ds}, {Heap: vn, Sort: vs}}, nil
		case "mapof":
			m := vc.eval(e.Args[1], env)
			mt, ok := m.Ty.Underlying().(*types.Map)
			if !ok {
				return nil, fmt.Errorf("mapof() needs a map")
			}
			dn, ds, vn, vs := vc.mapHeaps(mt)
			return []ModLoc{{Heap: dn, Idx: m.T, Sort: ds}, {Heap: vn, Idx: m.T, Sort: vs}}, nil
		}
	}
	x := vc.eval(e, env)
	if x.Loc == nil {
		return nil, fmt.Errorf("expression does not denote a location")
	}
	l := x.Loc
	srt := vc.rootStorageSort(l)
	switch l.Kind {
	case RField, RCell:
		return []ModLoc{{Heap: l.Heap, Idx: l.Base, Sort: srt}}, nil
	case RElem:
		return []ModLoc{{Heap: l.Heap, Idx: l.Base, Sort: srt}}, nil
	case RGlobal:
		return []ModLoc{{Heap: l.Heap, Sort: srt}}, nil
	case RLocal:
		if len(l.Path) == 1 && l.Path[0].Field == "" {
			return []ModLoc{{Heap: l.Heap, Idx: l.Path[0].Index, Sort: srt}}, nil
		}
		return []ModLoc{{Heap: l.Heap, Sort: srt}}, nil
	}
	return nil, fmt.Errorf("unsupported location")
}

// havocLoc forgets the content of one modifies entry.
func (vc *VC) havocLoc(m ModLoc) {
	if m.Idx == "" {
		vc.havocStorage(m.Heap, m.Sort)
		return
	}
	// Sort is (Array K V): havoc the single entry
	elem := arrayElemSort(m.Sort)
	f := vc.fresh("havoc_"+m.Heap, elem)
	vc.set(m.Heap, m.Sort, fmt.Sprintf("(store %s %s %s)", vc.get(m.Heap, m.Sort), m.Idx, f))
}

// arrayElemSort extracts V from "(Array K V)".
func arrayElemSort(s string) string {
	s = strings.TrimSpace(s)
	if !strings.HasPrefix(s, "(Array ") {
		return s
	}
	inner := s[len("(Array ") : len(s)-1]
	// skip K
	depth := 0
	for i := 0; i < len(inner); i++ {
		switch inner[i] {
		case '(':
			depth++
		case ')':
			depth--
		case ' ':
			if depth == 0 {
				return strings.TrimSpace(inner[i+1:])
			}
		}
	}
	return inner
}

// ---------------------------------------------------------------------------
// Locks.

func (vc *VC) lockSpecFor(v *Val, suffix []string) (*LockSpec, *Val, string) {
	if v.PRoot == nil {
		return nil, nil, ""
	}
	fields := append(append([]string{}, v.PFields...), suffix...)
	rt := v.PRoot.Ty
	if p, ok := rt.Underlying().(*types.Pointer); ok {
		rt = p.Elem()
	}
	n, ok := rt.(*types.Named)
	if !ok || n.Obj().Pkg() == nil {
		return nil, nil, ""
	}
	key := n.Obj().Pkg().Path() + "." + n.Obj().Name()
	for _, ls := range vc.p.db.Locks {
		if ls.TypeKey == key && strings.Join(ls.Path, ".") == strings.Join(fields, ".") {
			return ls, v.PRoot, key + "." + strings.Join(fields, ".") + "@" + vc.canon(v.PRoot.T)
		}
	}
	return nil, v.PRoot, key + "." + strings.Join(fields, ".") + "@" + vc.canon(v.PRoot.T)
}

func (vc *VC) lockEnv(ls *LockSpec, self *Val, old *State) *Env {
	return &Env{vars: map[string]*Val{"self": self}, st: vc.st, old: old, pkg: ls.Pkg, imports: ls.Imports}
}

func (vc *VC) lockProtected(ls *LockSpec, self *Val) []ModLoc {
	env := vc.lockEnv(ls, self, vc.st)
	var out []ModLoc
	for _, cl := range ls.Protects {
		locs, err := vc.evalModEntry(cl.Expr, env)
		if err != nil {
			vc.errorf("%s:%d: protects %s: %v", cl.File, cl.Line, cl.Src, err)
			continue
		}
		out = append(out, locs...)
	}
	return out
}

// lockOp models Lock/RLock (havoc protected state, assume invariant) and
// Unlock/RUnlock (invariant is an obligation).
func (vc *VC) lockOp(fr *Frame, recv *Val, suffix []string, op string, pos token.Pos) {
	ls, self, id := vc.lockSpecFor(recv, suffix)
	if ls == nil {
		vc.used.Assumes["lock operations on a lock without a declared invariant are no-ops for the proof"] = true
		return
	}
	switch op {
	case "lock", "rlock":
		if vc.st.held[id] {
			vc.oblige("lock", "not-held", "false", pos, "lock acquired while already held (self-deadlock)")
		}
		preLock := vc.st.clone()
		for _, m := range vc.lockProtected(ls, self) {
			vc.havocLocNoFrame(m)
		}
		env := vc.lockEnv(ls, self, fr.entrySt)
		for _, inv := range ls.Invariant {
			if t, ok := vc.evalBool(inv, env); ok {
				vc.assume(t)
			}
		}
		// rely: what the other goroutines leave alone while this one waits
		if top := vc.top; top != nil && top.spec != nil && len(top.spec.Rely) > 0 {
			renv := vc.specEnv(top, nil)
			renv.old = preLock
			for _, rc := range top.spec.Rely {
				if t, ok := vc.evalBool(rc, renv); ok {
					vc.assume(t)
					vc.used.Assumes["rely (ownership) in "+shortFuncName(top.fn)+": "+rc.Src] = true
				}
			}
		}
		vc.st.held[id] = true
		vc.lockedSt = vc.st.clone()
		if op == "rlock" {
			vc.st.held[id+"#r"] = true
		}
	case "unlock", "runlock":
		if os.Getenv("GOVC_DEBUG") != "" {
			fmt.Fprintf(os.Stderr, "unlock id=%s held=%v\n", id, vc.st.held)
		}
		if !vc.st.held[id] && vc.discovery == 0 {
			vc.oblige("lock", "held", "false", pos, "unlock of a lock that is not held")
		}
		env := vc.lockEnv(ls, self, fr.entrySt)
		for i, inv := range ls.Invariant {
			if t, ok := vc.evalBool(inv, env); ok {
				vc.oblige("unlock-inv", vc.clauseLabel(strings.Join(ls.Path, "."), inv, i), t, pos, "lock invariant re-established at unlock: "+inv.Src)
			}
		}
		delete(vc.st.held, id)
		delete(vc.st.held, id+"#r")
	}
}

func (vc *VC) havocLocNoFrame(m ModLoc) {
	save := vc.checkFrame
	vc.checkFrame = false
	vc.havocLoc(m)
	vc.checkFrame = save
}

// lockWriteCheck: a write to storage that some lock protects needs that lock
// held in write mode (or the object is freshly allocated).
func (vc *VC) lockWriteCheck(l *Loc, pos token.Pos) {
	if vc.discovery > 0 || l.Kind == RLocal || vc.lockChecksOff {
		return
	}
	prot := vc.p.protectedHeaps(vc)
	specs := prot[l.Heap]
	if len(specs) == 0 {
		return
	}
	for id := range vc.st.held {
		if strings.HasSuffix(id, "#r") {
			continue
		}
		if vc.st.held[id+"#r"] {
			continue
		}
		for _, ls := range specs {
			if strings.HasPrefix(id, ls.TypeKey+"."+strings.Join(ls.Path, ".")+"@") {
				return
			}
		}
	}
	goal := "false"
	if l.Base != "" {
		goal = vc.isFresh(l.Base)
	}
	vc.oblige("lock", "write-held:"+l.Heap, goal, pos, "write to lock-protected storage "+l.Heap+" without holding the write lock")
}

func (vc *VC) lockReadCheck(l *Loc, pos token.Pos) {
	if vc.discovery > 0 || l.Kind == RLocal || vc.lockChecksOff {
		return
	}
	prot := vc.p.protectedHeaps(vc)
	specs := prot[l.Heap]
	if len(specs) == 0 {
		return
	}
	for id := range vc.st.held {
		for _, ls := range specs {
			if strings.HasPrefix(strings.TrimSuffix(id, "#r"), ls.TypeKey+"."+strings.Join(ls.Path, ".")+"@") {
				return
			}
		}
	}
	goal := "false"
	if l.Base != "" {
		goal = vc.isFresh(l.Base)
	}
	vc.oblige("lock", "read-held:"+l.Heap, goal, pos, "read of lock-protected storage "+l.Heap+" without holding the lock")
}

// checkSpawn checks, where a closure is handed over to run later, that its
// precondition holds for the values it captured.
func (vc *VC) checkSpawn(fr *Frame, fv *Val, pos token.Pos) {
	if fv.Clo == nil {
		vc.used.Assumes["a function value handed to a spawner is not known statically at "+vc.p.relPos(pos)] = true
		return
	}
	callee := fv.Clo.Fn
	spec := vc.p.specFor(callee)
	if spec == nil {
		vc.used.Assumes["spawned closure "+calleeShort(callee.String())+" has no contract: its effects are not part of the spawning function's proof"] = true
		return
	}
	env := &Env{vars: map[string]*Val{}, st: vc.st, old: vc.st, pkg: spec.Pkg, imports: spec.Imports}
	for i, b := range fv.Clo.Bindings {
		if i < len(callee.FreeVars) {
			env.vars[callee.FreeVars[i].Name()] = vc.freeVarSpecVal(b)
		}
	}
	for i, rq := range spec.Requires {
		if t, ok := vc.evalBool(rq, env); ok {
			vc.oblige("spawn-pre", calleeShort(callee.String())+":"+vc.clauseLabel("requires", rq, i), t, pos, "precondition of the closure handed over to run later: "+rq.Src)
		}
	}
}

func (vc *VC) execGo(fr *Frame, in *ssa.Go, pos token.Pos) {
	// A spawned goroutine runs later from an arbitrary state satisfying the
	// lock invariants; at the spawn point only its precondition is checked.
	callee := in.Call.StaticCallee()
	if callee == nil {
		if mc, ok := in.Call.Value.(*ssa.MakeClosure); ok {
			callee = mc.Fn.(*ssa.Function)
		}
	}
	if callee == nil {
		vc.used.Havocked["go statement with unknown target at "+vc.p.relPos(pos)] = true
		return
	}
	spec := vc.p.specFor(callee)
	if spec == nil {
		vc.used.Assumes["spawned goroutine "+calleeShort(callee.String())+" has no contract: its effects are not part of the spawning function's proof"] = true
		return
	}
	var args []*Val
	for _, a := range in.Call.Args {
		args = append(args, vc.valueOf(fr, a))
	}
	names := vc.paramNames(spec, callee.Signature, "recv")
	if len(callee.Params) == len(args) && len(spec.Params) == 0 {
		names = nil
		for _, p := range callee.Params {
			names = append(names, p.Name())
		}
	}
	env := &Env{vars: map[string]*Val{}, st: vc.st, old: vc.st, pkg: spec.Pkg, imports: spec.Imports}
	for i, a := range args {
		if i < len(names) {
			env.vars[names[i]] = a
		}
	}
	for i, rq := range spec.Requires {
		if t, ok := vc.evalBool(rq, env); ok {
			vc.oblige("spawn-pre", calleeShort(callee.String())+":"+vc.clauseLabel("requires", rq, i), t, pos, "precondition of spawned "+callee.Name())
		}
	}
}

// ---------------------------------------------------------------------------
// Built-in functions.

func (vc *VC) builtin(fr *Frame, b *ssa.Builtin, c *ssa.CallCommon, args []*Val, site ssa.Instruction, pos token.Pos) *Val {
	intT := types.Typ[types.Int]
	switch b.Name() {
	case "len":
		x := args[0]
		switch u := c.Args[0].Type().Underlying().(type) {
		case *types.Slice:
			return &Val{T: fmt.Sprintf("(s_len %s)", x.T), Ty: intT}
		case *types.Basic:
			return &Val{T: fmt.Sprintf("(slen %s)", x.T), Ty: intT}
		case *types.Map:
			v := &Val{T: vc.mapLen(vc.st, u, x.T), Ty: intT}
			vc.assume(fmt.Sprintf("(>= %s 0)", v.T))
			return v
		case *types.Array:
			return &Val{T: fmt.Sprint(u.Len()), Ty: intT}
		case *types.Pointer:
			if at, ok := u.Elem().Underlying().(*types.Array); ok {
				return &Val{T: fmt.Sprint(at.Len()), Ty: intT}
			}
		}
	case "cap":
		x := args[0]
		switch u := c.Args[0].Type().Underlying().(type) {
		case *types.Slice:
			return &Val{T: fmt.Sprintf("(s_cap %s)", x.T), Ty: intT}
		case *types.Array:
			return &Val{T: fmt.Sprint(u.Len()), Ty: intT}
		}
	case "append":
		return vc.appendOp(fr, c, args, pos)
	case "copy":
		return vc.copyOp(fr, c, args, pos)
	case "delete":
		mt := c.Args[0].Type().Underlying().(*types.Map)
		vc.mapDelete(mt, args[0].T, args[1].T, pos)
		return &Val{Ty: types.NewTuple()}
	case "min", "max":
		op := "<="
		if b.Name() == "max" {
			op = ">="
		}
		t := args[0].T
		for _, a := range args[1:] {
			t = fmt.Sprintf("(ite (%s %s %s) %s %s)", op, t, a.T, t, a.T)
		}
		return &Val{T: t, Ty: c.Args[0].Type()}
	case "print", "println":
		return &Val{Ty: types.NewTuple()}
	case "recover":
		return &Val{T: "(mk_iface 0 0)", Ty: types.NewInterfaceType(nil, nil)}
	case "clear":
		if mt, ok := c.Args[0].Type().Underlying().(*types.Map); ok {
			dn, ds, _, _ := vc.mapHeaps(mt)
			vc.frameCheck(dn, args[0].T, pos)
			d := vc.get(dn, ds)
			vc.set(dn, ds, fmt.Sprintf("(ite (= %s 0) %s (store %s %s ((as const (Array %s Bool)) false)))", args[0].T, d, d, args[0].T, vc.sortOf(mt.Key())))
			return &Val{Ty: types.NewTuple()}
		}
		if st, ok := c.Args[0].Type().Underlying().(*types.Slice); ok {
			// clear(s): every element of s becomes the zero value
			et := st.Elem()
			es := vc.sortOf(et)
			hn, hs := vc.elemHeap(et)
			heap := vc.get(hn, hs)
			s := args[0]
			arr := vc.fresh("clear_elems", "(Array Int "+es+")")
			oldArr := fmt.Sprintf("(select %s (s_arr %s))", heap, s.T)
			vc.emit("(assert (=> %s (forall ((j Int)) (=> (and (<= (s_off %s) j) (< j (+ (s_off %s) (s_len %s)))) (= (select %s j) %s)))))", vc.reach, s.T, s.T, s.T, arr, vc.zeroValue(et))
			vc.emit("(assert (=> %s (forall ((j Int)) (=> (not (and (<= (s_off %s) j) (< j (+ (s_off %s) (s_len %s))))) (= (select %s j) (select %s j))))))", vc.reach, s.T, s.T, s.T, arr, oldArr)
			vc.frameCheck(hn, fmt.Sprintf("(s_arr %s)", s.T), pos)
			vc.set(hn, hs, fmt.Sprintf("(ite (= (s_len %s) 0) %s (store %s (s_arr %s) %s))", s.T, heap, heap, s.T, arr))
			return &Val{Ty: types.NewTuple()}
		}
	}
	vc.errorf("%s: unsupported builtin %s (outside subset)", vc.p.fset.Position(pos), b.Name())
	return vc.freshResult(c.Signature(), b.Name())
}

// appendOp gives append its language semantics: in place iff the capacity
// suffices, otherwise a fresh backing array with the prefix copied.
func (vc *VC) appendOp(fr *Frame, c *ssa.CallCommon, args []*Val, pos token.Pos) *Val {
	s := args[0]
	st := c.Args[0].Type().Underlying().(*types.Slice)
	et := st.Elem()
	es := vc.sortOf(et)
	hn, hs := vc.elemHeap(et)
	if len(args) == 1 {
		return s
	}
	t := args[1]
	// number of appended elements
	n := fmt.Sprintf("(s_len %s)", t.T)
	if _, isStr := c.Args[1].Type().Underlying().(*types.Basic); isStr {
		n = fmt.Sprintf("(slen %s)", t.T)
	}
	fixed := -1
	if k, ok := vc.lenHint[t.T]; ok {
		fixed = k
		n = fmt.Sprint(k)
	}
	// `atcall append ...`: arg0 is the slice appended to, arg1 what is appended
	if site := vc.curInstr; site != nil {
		vc.atPointAsserts(fr, nil, "append", []*Val{s, t}, site, pos)
	}
	heap := vc.get(hn, hs)
	vc.markIndex(fmt.Sprintf("(s_len %s)", s.T))
	oldArr := fmt.Sprintf("(select %s (s_arr %s))", heap, s.T)
	newLen := fmt.Sprintf("(+ (s_len %s) %s)", s.T, n)
	fits := vc.define("append_fits", "Bool", fmt.Sprintf("(and (not (= (s_arr %s) 0)) (<= %s (s_cap %s)))", s.T, newLen, s.T))
	r := vc.fresh("append", "Slice")
	freshArr := vc.allocRef("append_arr")
	vc.assume(fmt.Sprintf("(= (s_len %s) %s)", r, newLen))
	vc.assume(fmt.Sprintf("(=> %s (and (= (s_arr %s) (s_arr %s)) (= (s_off %s) (s_off %s)) (= (s_cap %s) (s_cap %s))))", fits, r, s.T, r, s.T, r, s.T))
	vc.assume(fmt.Sprintf("(=> (not %s) (and (= (s_arr %s) %s) (= (s_off %s) 0) (>= (s_cap %s) %s)))", fits, r, freshArr, r, r, newLen))
	// contents of the result's backing array
	arr := vc.fresh("append_elems", "(Array Int "+es+")")
	roff := fmt.Sprintf("(s_off %s)", r)
	srcElem := func(j string) string {
		if _, isStr := c.Args[1].Type().Underlying().(*types.Basic); isStr {
			return fmt.Sprintf("(sat %s %s)", t.T, j)
		}
		return fmt.Sprintf("(select (select %s (s_arr %s)) (+ (s_off %s) %s))", heap, t.T, t.T, j)
	}
	if fixed >= 0 && fixed <= 4 {
		// exact in-place form: chain of stores on the old array
		inplace := oldArr
		for j := 0; j < fixed; j++ {
			inplace = fmt.Sprintf("(store %s (+ (s_off %s) (s_len %s) %d) %s)", inplace, s.T, s.T, j, srcElem(fmt.Sprint(j)))
		}
		vc.assume(fmt.Sprintf("(=> %s (= %s %s))", fits, arr, inplace))
		for j := 0; j < fixed; j++ {
			vc.assume(fmt.Sprintf("(=> (not %s) (= (select %s (+ (s_len %s) %d)) %s))", fits, arr, s.T, j, srcElem(fmt.Sprint(j))))
		}
	} else {
		vc.emit("(assert (=> %s (forall ((j Int)) (=> (and (<= 0 j) (< j %s)) (= (select %s (+ %s (s_len %s) j)) %s)))))", vc.reach, n, arr, roff, s.T, srcElem("j"))
		vc.emit("(assert (=> %s (=> %s (forall ((j Int)) (=> (not (and (<= (+ %s (s_len %s)) j) (< j (+ %s %s)))) (= (select %s j) (select %s j)))))))", vc.reach, fits, roff, s.T, roff, newLen, arr, oldArr)
	}
	// prefix copy when a fresh array is used
	vc.emit("(assert (=> %s (=> (not %s) (forall ((j Int)) (=> (and (<= 0 j) (< j (s_len %s))) (= (select %s j) (select %s (+ (s_off %s) j))))))))", vc.reach, fits, s.T, arr, oldArr, s.T)
	vc.frameCheck(hn, fmt.Sprintf("(s_arr %s)", r), pos)
	vc.set(hn, hs, fmt.Sprintf("(store %s (s_arr %s) %s)", heap, r, arr))
	return &Val{T: r, Ty: c.Args[0].Type()}
}

func (vc *VC) copyOp(fr *Frame, c *ssa.CallCommon, args []*Val, pos token.Pos) *Val {
	dst, src := args[0], args[1]
	st := c.Args[0].Type().Underlying().(*types.Slice)
	et := st.Elem()
	es := vc.sortOf(et)
	hn, hs := vc.elemHeap(et)
	heap := vc.get(hn, hs)
	srcLen := fmt.Sprintf("(s_len %s)", src.T)
	_, srcIsStr := c.Args[1].Type().Underlying().(*types.Basic)
	if srcIsStr {
		srcLen = fmt.Sprintf("(slen %s)", src.T)
	}
	if dOff, dN, ok := constArraySlice(c.Args[0]); ok && !srcIsStr {
		if sOff, sN, ok := constArraySlice(c.Args[1]); ok && dN <= maxArrUnroll && sN <= maxArrUnroll {
			// both operands are constant windows of fixed-size arrays: the
			// copy is written out element by element (all reads from the
			// state before the copy, as memmove does)
			cnt := min(dN, sN)
			if cnt == 0 {
				return &Val{T: "0", Ty: types.Typ[types.Int]}
			}
			srcArr := fmt.Sprintf("(select %s (s_arr %s))", heap, src.T)
			r := fmt.Sprintf("(select %s (s_arr %s))", heap, dst.T)
			for k := int64(0); k < cnt; k++ {
				r = fmt.Sprintf("(store %s %d (select %s %d))", r, dOff+k, srcArr, sOff+k)
			}
			vc.frameCheck(hn, fmt.Sprintf("(s_arr %s)", dst.T), pos)
			vc.set(hn, hs, fmt.Sprintf("(store %s (s_arr %s) %s)", heap, dst.T, r))
			return &Val{T: strconv.FormatInt(cnt, 10), Ty: types.Typ[types.Int]}
		}
	}
	n := vc.define("copy_n", "Int", fmt.Sprintf("(ite (<= (s_len %s) %s) (s_len %s) %s)", dst.T, srcLen, dst.T, srcLen))
	arr := vc.fresh("copy_elems", "(Array Int "+es+")")
	oldArr := fmt.Sprintf("(select %s (s_arr %s))", heap, dst.T)
	srcElem := fmt.Sprintf("(select (select %s (s_arr %s)) (+ (s_off %s) j))", heap, src.T, src.T)
	if srcIsStr {
		srcElem = fmt.Sprintf("(sat %s j)", src.T)
	}
	vc.emit("(assert (=> %s (forall ((j Int)) (=> (and (<= 0 j) (< j %s)) (= (select %s (+ (s_off %s) j)) %s)))))", vc.reach, n, arr, dst.T, srcElem)
	vc.emit("(assert (=> %s (forall ((j Int)) (=> (not (and (<= (s_off %s) j) (< j (+ (s_off %s) %s)))) (= (select %s j) (select %s j))))))", vc.reach, dst.T, dst.T, n, arr, oldArr)
	vc.frameCheck(hn, fmt.Sprintf("(s_arr %s)", dst.T), pos)
	vc.set(hn, hs, fmt.Sprintf("(ite (= %s 0) %s (store %s (s_arr %s) %s))", n, heap, heap, dst.T, arr))
	return &Val{T: n, Ty: types.Typ[types.Int]}
}

// ---------------------------------------------------------------------------
// Hard-coded models of sync and sync/atomic.

func (vc *VC) hardcoded(fr *Frame, fn *ssa.Function, args []*Val, sig *types.Signature, pos token.Pos) (*Val, bool) {
	name := fn.String()
	unit := &Val{Ty: types.NewTuple()}
	switch name {
	case "(*sync.Mutex).Lock", "(*sync.RWMutex).Lock":
		vc.lockOp(fr, args[0], nil, "lock", pos)
		return unit, true
	case "(*sync.Mutex).Unlock", "(*sync.RWMutex).Unlock":
		vc.lockOp(fr, args[0], nil, "unlock", pos)
		return unit, true
	case "(*sync.RWMutex).RLock":
		vc.lockOp(fr, args[0], nil, "rlock", pos)
		return unit, true
	case "(*sync.RWMutex).RUnlock":
		vc.lockOp(fr, args[0], nil, "runlock", pos)
		return unit, true
	case "(*sync.Cond).Wait":
		vc.lockOp(fr, args[0], []string{"L"}, "unlock", pos)
		vc.lockOp(fr, args[0], []string{"L"}, "lock", pos)
		return unit, true
	case "(*sync.Cond).Signal", "(*sync.Cond).Broadcast":
		if vc.p.specFor(fn) != nil {
			// an assumed contract counts the wake-ups (contracts/ext/std.spec)
			return nil, false
		}
		return unit, true
	}
	if fn.Pkg != nil && fn.Pkg.Pkg.Path() == "sync/atomic" && fn.Signature.Recv() != nil && len(args) > 0 {
		var l *Loc
		if args[0].Loc != nil && args[0].T == "" {
			l = args[0].Loc
		} else if pt, ok := args[0].Ty.Underlying().(*types.Pointer); ok && args[0].T != "" {
			// a free-standing atomic value behind a pointer: a heap cell
			if _, isAt := atomicContent(pt.Elem()); isAt {
				vc.nilCheck(fr, args[0].T, pos, "atomic value")
				hn, _ := vc.cellHeap(pt.Elem())
				l = &Loc{Kind: RCell, Heap: hn, Base: args[0].T, RootT: pt.Elem()}
			}
		}
		if l == nil {
			return nil, false
		}
		ct, ok := atomicContent(l.targetType())
		if !ok {
			return nil, false
		}
		vc.used.Builtins["sync/atomic operations are single atomic steps with sequential semantics"] = true
		cur := vc.load(l)
		switch fn.Name() {
		case "Load":
			v := &Val{T: vc.define("atomic_load", vc.sortOf(ct), cur.T), Ty: ct}
			vc.assume(vc.rangeFact(v.T, ct))
			return v, true
		case "Store":
			vc.store(l, args[1].T, pos)
			return unit, true
		case "Swap":
			old := &Val{T: vc.define("atomic_old", vc.sortOf(ct), cur.T), Ty: ct}
			vc.store(l, args[1].T, pos)
			return old, true
		case "CompareAndSwap":
			okT := vc.define("cas_ok", "Bool", fmt.Sprintf("(= %s %s)", cur.T, args[1].T))
			vc.store(l, fmt.Sprintf("(ite %s %s %s)", okT, args[2].T, cur.T), pos)
			if _, declared := vc.p.db.Ghosts["casWins"]; declared {
				// ghost casWins counts the compare-and-swap operations this
				// goroutine has won (the exclusive right they hand out)
				vc.frameCheck("G.casWins", "", pos)
				w := vc.get("G.casWins", "Int")
				vc.set("G.casWins", "Int", fmt.Sprintf("(ite %s (+ %s 1) %s)", okT, w, w))
			}
			return &Val{T: okT, Ty: types.Typ[types.Bool]}, true
		case "Add":
			nv := vc.define("atomic_add", "Int", vc.wrapInt(fmt.Sprintf("(+ %s %s)", cur.T, args[1].T), ct))
			vc.store(l, nv, pos)
			return &Val{T: nv, Ty: ct}, true
		}
	}
	return nil, false
}

// sortedBoolKeys is a helper for deterministic evidence output.
func sortedBoolKeys(m map[string]bool) []string {
	ks := make([]string, 0, len(m))
	for k := range m {
		ks = append(ks, k)
	}
	sort.Strings(ks)
	return ks
}

// specUsesLocked reports whether a contract mentions locked(...).
func specUsesLocked(spec *FuncSpec) bool {
	if spec.usesLocked != 0 {
		return spec.usesLocked > 0
	}
	spec.usesLocked = -1
	var has func(e *SExpr) bool
	has = func(e *SExpr) bool {
		if e == nil {
			return false
		}
		if e.Op == "call" && e.Args[0].Op == "ident" && e.Args[0].Name == "locked" {
			return true
		}
		for _, a := range e.Args {
			if has(a) {
				return true
			}
		}
		return false
	}
	for _, c := range spec.Ensures {
		if has(c.Expr) {
			spec.usesLocked = 1
		}
	}
	return spec.usesLocked > 0
}

// tryResolveType is resolveType without the failure: nil when a package the
// type mentions is not loaded.
func (vc *VC) tryResolveType(te *TypeExpr, pkg string, imports map[string]string) (t types.Type) {
	defer func() {
		if r := recover(); r != nil {
			if _, ok := r.(evalError); ok {
				t = nil
				return
			}
			panic(r)
		}
	}()
	return vc.resolveType(te, pkg, imports, true)
}

// callsContextWith reports whether fn (or the function it is a closure of)
// creates a cancellable context.
func callsContextWith(fn *ssa.Function) bool {
	for f := fn; f != nil; f = f.Parent() {
		for _, b := range f.Blocks {
			for _, in := range b.Instrs {
				c, ok := in.(ssa.CallInstruction)
				if !ok {
					continue
				}
				if callee := c.Common().StaticCallee(); callee != nil && callee.Pkg != nil && callee.Pkg.Pkg.Path() == "context" && strings.HasPrefix(callee.Name(), "With") {
					return true
				}
			}
		}
	}
	return false
}

// constArraySlice recognises a[lo:hi] of a pointer to a fixed-size array with
// constant (or absent) bounds: the window's offset and length.
func constArraySlice(v ssa.Value) (off, n int64, ok bool) {
	sl, isSl := v.(*ssa.Slice)
	if !isSl || sl.Max != nil {
		return 0, 0, false
	}
	pt, isPtr := sl.X.Type().Underlying().(*types.Pointer)
	if !isPtr {
		return 0, 0, false
	}
	at, isArr := pt.Elem().Underlying().(*types.Array)
	if !isArr {
		return 0, 0, false
	}
	lo, hi := int64(0), at.Len()
	if sl.Low != nil {
		c, ok := constInt(sl.Low)
		if !ok {
			return 0, 0, false
		}
		lo = c
	}
	if sl.High != nil {
		c, ok := constInt(sl.High)
		if !ok {
			return 0, 0, false
		}
		hi = c
	}
	if lo < 0 || hi < lo || hi > at.Len() {
		return 0, 0, false
	}
	return lo, hi - lo, true
}

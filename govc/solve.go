package main

// Solver portfolio: z3-new, z3, cvc5 raced per obligation.

import (
	"bytes"
	"context"
	"fmt"
	"os"
	"os/exec"
	"path/filepath"
	"strings"
	"sync"
	"time"
)

type SolveResult struct {
	Obl      *Obligation
	Status   string // "unsat", "sat", "unknown"
	Solver   string
	Secs     float64
	Output   string
	File     string
	PerSolver map[string]string
	Bytes    int
	Values   string
}

type solverDef struct {
	name string
	args func(file string, timeoutS int) []string
}

var solvers = []solverDef{
	{"z3-new", func(f string, t int) []string { return []string{"z3-new", fmt.Sprintf("-T:%d", t), f} }},
	{"z3", func(f string, t int) []string { return []string{"z3", fmt.Sprintf("-T:%d", t), f} }},
	{"cvc5", func(f string, t int) []string {
		return []string{"cvc5", fmt.Sprintf("--tlimit=%d", t*1000), "--full-saturate-quant", f}
	}},
}

func availableSolvers() []solverDef {
	var out []solverDef
	for _, s := range solvers {
		if _, err := exec.LookPath(s.name); err == nil {
			out = append(out, s)
		}
	}
	return out
}

func firstLine(s string) string {
	for _, l := range strings.Split(s, "\n") {
		l = strings.TrimSpace(l)
		if l == "" || strings.HasPrefix(l, ";") || strings.HasPrefix(l, "WARNING") {
			continue
		}
		return l
	}
	return ""
}

func runSolver(ctx context.Context, sd solverDef, file string, timeoutS int) (status, output string) {
	args := sd.args(file, timeoutS)
	cctx, cancel := context.WithTimeout(ctx, time.Duration(timeoutS+2)*time.Second)
	defer cancel()
	cmd := exec.CommandContext(cctx, args[0], args[1:]...)
	var buf bytes.Buffer
	cmd.Stdout = &buf
	cmd.Stderr = &buf
	_ = cmd.Run()
	out := buf.String()
	fl := firstLine(out)
	switch fl {
	case "sat", "unsat":
		return fl, out
	}
	return "unknown", out
}

// solveOne races the solvers on one obligation.  With all=true every solver
// is run to completion and the answers are compared.
func solveOne(o *Obligation, dir string, idx int, timeoutS int, all bool) *SolveResult {
	if o.Vacuity {
		// covers are satisfiability queries; "unknown" is not a failure, so keep them short
		timeoutS = 3
		all = false
	}
	script := o.Script() + "(get-model)\n"
	file := filepath.Join(dir, fmt.Sprintf("o%04d.smt2", idx))
	_ = os.WriteFile(file, []byte("; "+o.Name+"\n"+script), 0o644)
	res := &SolveResult{Obl: o, File: file, PerSolver: map[string]string{}, Bytes: len(script)}
	avail := availableSolvers()
	if len(avail) == 0 {
		res.Status = "unknown"
		res.Output = "no solver available"
		return res
	}
	start := time.Now()
	ctx, cancel := context.WithCancel(context.Background())
	defer cancel()
	type ans struct{ solver, status, output string }
	ch := make(chan ans, len(avail))
	var wg sync.WaitGroup
	launch := func(sd solverDef) {
		wg.Add(1)
		go func() {
			defer wg.Done()
			st, out := runSolver(ctx, sd, file, timeoutS)
			ch <- ans{sd.name, st, out}
		}()
	}
	launch(avail[0])
	launched := 1
	stagger := time.NewTimer(1500 * time.Millisecond)
	if all {
		for _, sd := range avail[1:] {
			launch(sd)
		}
		launched = len(avail)
	}
	got := 0
	res.Status = "unknown"
	// An obligation that is still open after a few seconds is also attacked by
	// case analysis over its merge points, concurrently (quick tier only; the
	// thorough tier wants every solver's own answer first).
	var early <-chan time.Time
	earlyCh := make(chan *SolveResult, 1)
	if !all && !o.Vacuity && len(o.Merges) > 0 {
		early = time.After(5 * time.Second)
	}
	for got < launched {
		select {
		case <-early:
			early = nil
			go func() {
				r2 := &SolveResult{Status: "unknown"}
				splitSolve(o, r2, dir, idx, timeoutS, avail)
				earlyCh <- r2
			}()
		case r2 := <-earlyCh:
			if r2.Status == "unsat" {
				cancel()
				res.Status, res.Solver = "unsat", r2.Solver
				res.Secs = time.Since(start).Seconds()
				go func() { wg.Wait() }()
				return res
			}
		case a := <-ch:
			got++
			res.PerSolver[a.solver] = a.status
			if a.status == "sat" || a.status == "unsat" {
				if res.Status == "unknown" {
					res.Status, res.Solver, res.Output = a.status, a.solver, a.output
				}
				if !all {
					cancel()
					res.Secs = time.Since(start).Seconds()
					go func() { wg.Wait() }()
					return res
				}
			} else if res.Output == "" {
				res.Output = a.output
			}
			if !all && got == launched && launched < len(avail) {
				// first solver gave up early: try the others now
				for _, sd := range avail[launched:] {
					launch(sd)
				}
				launched = len(avail)
			}
		case <-stagger.C:
			if launched < len(avail) {
				for _, sd := range avail[launched:] {
					launch(sd)
				}
				launched = len(avail)
			}
		}
	}
	res.Secs = time.Since(start).Seconds()
	if res.Status == "unknown" && !o.Vacuity {
		// retry without the real-arithmetic assumptions
		if ls, dropped := o.LightScript(); dropped {
			file2 := filepath.Join(dir, fmt.Sprintf("o%04d.light.smt2", idx))
			_ = os.WriteFile(file2, []byte("; "+o.Name+" (light)\n"+ls+"(get-model)\n"), 0o644)
			for _, sd := range avail {
				st, _ := runSolver(context.Background(), sd, file2, timeoutS)
				if st == "unsat" {
					res.Status, res.Solver = "unsat", sd.name+"+light"
					break
				}
				if st == "sat" {
					break
				}
			}
			res.Secs = time.Since(start).Seconds()
		}
	}
	if res.Status == "unknown" && !o.Vacuity && len(o.Merges) > 0 {
		splitSolve(o, res, dir, idx, timeoutS, avail)
		res.Secs = time.Since(start).Seconds()
	}
	return res
}

// splitSolve retries an undecided obligation by case analysis over the edges
// of one merge point (then two): reach implies that one incoming edge of each
// merge on the path was taken, so the obligation holds iff it holds in every
// case.  All cases must be unsat.
func splitSolve(o *Obligation, res *SolveResult, dir string, idx int, timeoutS int, avail []solverDef) {
	tryCases := func(cases [][]string, tag string) bool {
		for ci, c := range cases {
			script := o.ScriptWith(c) + "(get-model)\n"
			file := filepath.Join(dir, fmt.Sprintf("o%04d.%s.%d.smt2", idx, tag, ci))
			_ = os.WriteFile(file, []byte("; "+o.Name+" case "+strings.Join(c, " ")+"\n"+script), 0o644)
			ok := false
			for _, sd := range avail {
				st, _ := runSolver(context.Background(), sd, file, splitTimeout(timeoutS))
				if st == "unsat" {
					ok = true
					break
				}
				if st == "sat" {
					return false
				}
			}
			if !ok {
				return false
			}
		}
		return true
	}
	n := len(o.Merges)
	lo := n - 6
	if lo < 0 {
		lo = 0
	}
	// all single-merge splits concurrently; the first complete one wins
	type att struct {
		ok  bool
		tag string
	}
	ch := make(chan att, n)
	cnt := 0
	for i := n - 1; i >= lo; i-- {
		var cases [][]string
		for _, e := range o.Merges[i] {
			cases = append(cases, []string{e})
		}
		// the complement keeps the case analysis exhaustive even when the
		// merge point is not on every path to the obligation
		cases = append(cases, []string{"(not (or " + strings.Join(o.Merges[i], " ") + "))"})
		cnt++
		go func(cases [][]string, i int) {
			ch <- att{tryCases(cases, fmt.Sprintf("s%d", i)), "case-split(1)"}
		}(cases, i)
	}
	for k := 0; k < cnt; k++ {
		if a := <-ch; a.ok {
			res.Status, res.Solver = "unsat", a.tag
			return
		}
	}
	cnt = 0
	ch2 := make(chan att, n*n)
	for i := n - 1; i >= lo; i-- {
		for j := i - 1; j >= lo; j-- {
			var cases [][]string
			as := append(append([]string{}, o.Merges[i]...), "(not (or "+strings.Join(o.Merges[i], " ")+"))")
			bs := append(append([]string{}, o.Merges[j]...), "(not (or "+strings.Join(o.Merges[j], " ")+"))")
			for _, a := range as {
				for _, b := range bs {
					cases = append(cases, []string{a, b})
				}
			}
			cnt++
			go func(cases [][]string, i, j int) {
				ch2 <- att{tryCases(cases, fmt.Sprintf("s%d_%d", i, j)), "case-split(2)"}
			}(cases, i, j)
		}
	}
	for k := 0; k < cnt; k++ {
		if a := <-ch2; a.ok {
			res.Status, res.Solver = "unsat", a.tag
			return
		}
	}
}

func solveAll(obls []*Obligation, dir string, workers, timeoutS int, all bool) []*SolveResult {
	results := make([]*SolveResult, len(obls))
	var wg sync.WaitGroup
	sem := make(chan struct{}, workers)
	for i, o := range obls {
		wg.Add(1)
		sem <- struct{}{}
		go func(i int, o *Obligation) {
			defer wg.Done()
			defer func() { <-sem }()
			results[i] = solveOne(o, dir, i, timeoutS, all)
		}(i, o)
	}
	wg.Wait()
	// An obligation that ran into the time limit while the others kept all
	// cores busy is tried once more, alone, with twice the time: a machine under
	// load must not turn a proof that takes a few seconds into an alarm.  (Covers are not retried - an undecided cover is not an alarm.)
	// (Only when one or two obligations are affected - a change that really
	// breaks something usually leaves several undecided, and those are not
	// worth waiting for again - and never for more than 50 s each.)
	var late []int
	for i, r := range results {
		if r == nil || r.Status != "unknown" || r.Obl == nil || r.Obl.Kind == "cover" {
			continue
		}
		if r.Secs < float64(timeoutS)-2 {
			continue // the solvers gave up on their own: more time will not help
		}
		late = append(late, i)
	}
	if len(late) <= 2 {
		t2 := 2 * timeoutS
		if t2 > 50 {
			t2 = 50
		}
		for _, i := range late {
			r2 := solveOne(obls[i], dir, i, t2, all)
			if r2 != nil && r2.Status != "unknown" {
				r2.Solver += " (retried alone)"
				results[i] = r2
			}
		}
	}
	return results
}

func splitTimeout(t int) int {
	if t > 6 {
		return 6
	}
	return t
}

package main

// Solver portfolio: z3-new, z3, cvc5 raced per obligation.

import (
	"bytes"
	"context"
	"fmt"
	"os"
	"os/exec"
	"path/filepath"
	"strings"
	"sync"
	"time"
)

type SolveResult struct {
	Obl      *Obligation
	Status   string // "unsat", "sat", "unknown"
	Solver   string
	Secs     float64
	Output   string
	File     string
	PerSolver map[string]string
	Bytes    int
	Values   string
}

type solverDef struct {
	name string
	args func(file string, timeoutS int) []string
}

var solvers = []solverDef{
	{"z3-new", func(f string, t int) []string { return []string{"z3-new", fmt.Sprintf("-T:%d", t), f} }},
	{"z3", func(f string, t int) []string { return []string{"z3", fmt.Sprintf("-T:%d", t), f} }},
	{"cvc5", func(f string, t int) []string {
		return []string{"cvc5", fmt.Sprintf("--tlimit=%d", t*1000), "--full-saturate-quant", f}
	}},
}

func availableSolvers() []solverDef {
	var out []solverDef
	for _, s := range solvers {
		if _, err := exec.LookPath(s.name); err == nil {
			out = append(out, s)
		}
	}
	return out
}

func firstLine(s string) string {
	for _, l := range strings.Split(s, "\n") {
		l = strings.TrimSpace(l)
		if l == "" || strings.HasPrefix(l, ";") || strings.HasPrefix(l, "(error") && false {
			continue
		}
		return l
	}
	return ""
}

func runSolver(ctx context.Context, sd solverDef, file string, timeoutS int) (status, output string) {
	args := sd.args(file, timeoutS)
	cctx, cancel := context.WithTimeout(ctx, time.Duration(timeoutS+2)*time.Second)
	defer cancel()
	cmd := exec.CommandContext(cctx, args[0], args[1:]...)
	var buf bytes.Buffer
	cmd.Stdout = &buf
	cmd.Stderr = &buf
	_ = cmd.Run()
	out := buf.String()
	fl := firstLine(out)
	switch fl {
	case "sat", "unsat":
		return fl, out
	}
	return "unknown", out
}

// solveOne races the solvers on one obligation.  With all=true every solver
// is run to completion and the answers are compared.
func solveOne(o *Obligation, dir string, idx int, timeoutS int, all bool) *SolveResult {
	if o.Vacuity {
		// covers are satisfiability queries; "unknown" is not a failure, so keep them short
		timeoutS = 3
		all = false
	}
	script := o.Script() + "(get-model)\n"
	file := filepath.Join(dir, fmt.Sprintf("o%04d.smt2", idx))
	_ = os.WriteFile(file, []byte("; "+o.Name+"\n"+script), 0o644)
	res := &SolveResult{Obl: o, File: file, PerSolver: map[string]string{}, Bytes: len(script)}
	avail := availableSolvers()
	if len(avail) == 0 {
		res.Status = "unknown"
		res.Output = "no solver available"
		return res
	}
	start := time.Now()
	ctx, cancel := context.WithCancel(context.Background())
	defer cancel()
	type ans struct{ solver, status, output string }
	ch := make(chan ans, len(avail))
	var wg sync.WaitGroup
	launch := func(sd solverDef) {
		wg.Add(1)
		go func() {
			defer wg.Done()
			st, out := runSolver(ctx, sd, file, timeoutS)
			ch <- ans{sd.name, st, out}
		}()
	}
	launch(avail[0])
	launched := 1
	stagger := time.NewTimer(1500 * time.Millisecond)
	if all {
		for _, sd := range avail[1:] {
			launch(sd)
		}
		launched = len(avail)
	}
	got := 0
	res.Status = "unknown"
	for got < launched {
		select {
		case a := <-ch:
			got++
			res.PerSolver[a.solver] = a.status
			if a.status == "sat" || a.status == "unsat" {
				if res.Status == "unknown" {
					res.Status, res.Solver, res.Output = a.status, a.solver, a.output
				}
				if !all {
					cancel()
					res.Secs = time.Since(start).Seconds()
					go func() { wg.Wait() }()
					return res
				}
			} else if res.Output == "" {
				res.Output = a.output
			}
			if !all && got == launched && launched < len(avail) {
				// first solver gave up early: try the others now
				for _, sd := range avail[launched:] {
					launch(sd)
				}
				launched = len(avail)
			}
		case <-stagger.C:
			if launched < len(avail) {
				for _, sd := range avail[launched:] {
					launch(sd)
				}
				launched = len(avail)
			}
		}
	}
	res.Secs = time.Since(start).Seconds()
	return res
}

func solveAll(obls []*Obligation, dir string, workers, timeoutS int, all bool) []*SolveResult {
	results := make([]*SolveResult, len(obls))
	var wg sync.WaitGroup
	sem := make(chan struct{}, workers)
	for i, o := range obls {
		wg.Add(1)
		sem <- struct{}{}
		go func(i int, o *Obligation) {
			defer wg.Done()
			defer func() { <-sem }()
			results[i] = solveOne(o, dir, i, timeoutS, all)
		}(i, o)
	}
	wg.Wait()
	return results
}

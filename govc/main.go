package main

// govc: a verification-condition generator for Go (go/ssa -> SMT-LIB) with
// Gobra-style contracts kept in comment-only files.  See /verif/DESIGN.md.

import (
	"encoding/json"
	"flag"
	"fmt"
	"os"
	"os/exec"
	"path/filepath"
	"regexp"
	"sort"
	"strconv"
	"strings"
	"time"
)

type PropConfig struct {
	ID          string   `json:"id"`
	Packages    []string `json:"packages"`
	NotDecided  []string `json:"not_decided"`
	Assumptions []string `json:"assumptions"`
	Bounded     []BoundedSpec `json:"bounded"`
	Replays     []ReplaySpec  `json:"replays"`
	// IndexPatterns: quantifiers over one integer that indexes slices get the
	// element reads as explicit triggers (opt-in per property).
	IndexPatterns bool `json:"index_patterns"`
}

type BoundedSpec struct {
	Function string `json:"function"`
	Bound    string `json:"bound"`
	Test     string `json:"test"` // test name run through overlay
	Pkg      string `json:"pkg"`
	File     string `json:"file"`
}

// lastBoundedRuns carries the bounded stand-in results into the evidence.
var lastBoundedRuns []map[string]any

func main() {
	if len(os.Args) < 2 {
		fmt.Fprintln(os.Stderr, "usage: govc check|dump ...")
		os.Exit(2)
	}
	switch os.Args[1] {
	case "check":
		os.Exit(cmdCheck(os.Args[2:]))
	default:
		fmt.Fprintln(os.Stderr, "unknown command")
		os.Exit(2)
	}
}

func verifRoot() string {
	if r := os.Getenv("VERIF_ROOT"); r != "" {
		return r
	}
	exe, err := os.Executable()
	if err == nil {
		return filepath.Dir(filepath.Dir(exe))
	}
	return "/verif"
}

type knownFinding struct {
	Prop, Obligation, Text string
}

func loadKnownFindings(path string) (known []knownFinding, fixed []string) {
	data, err := os.ReadFile(path)
	if err != nil {
		return nil, nil
	}
	for _, line := range strings.Split(string(data), "\n") {
		line = strings.TrimSpace(line)
		if strings.HasPrefix(line, "known:") {
			kf := knownFinding{}
			rest := strings.TrimSpace(strings.TrimPrefix(line, "known:"))
			for _, f := range strings.Fields(rest) {
				if strings.HasPrefix(f, "property=") && kf.Prop == "" {
					kf.Prop = strings.TrimPrefix(f, "property=")
				} else if strings.HasPrefix(f, "obligation=") && kf.Obligation == "" {
					kf.Obligation = strings.TrimPrefix(f, "obligation=")
				}
			}
			if i := strings.Index(rest, kf.Obligation); i >= 0 && kf.Obligation != "" {
				kf.Text = strings.TrimSpace(rest[i+len(kf.Obligation):])
			}
			known = append(known, kf)
		} else if strings.HasPrefix(line, "fixed:") {
			fixed = append(fixed, line)
		}
	}
	return
}

func cmdCheck(argv []string) int {
	fs := flag.NewFlagSet("check", flag.ExitOnError)
	propID := fs.String("prop", "", "property id")
	repo := fs.String("repo", "/repo", "repository root")
	tier := fs.String("tier", "quick", "quick|thorough")
	only := fs.String("only", "", "verify only functions whose name contains this")
	keep := fs.Bool("keep", false, "keep the SMT files")
	verbose := fs.Bool("v", false, "verbose")
	noEvidence := fs.Bool("no-evidence", false, "do not write the evidence file")
	allProps := fs.Bool("all-funcs", false, "verify every function under contract in the loaded packages")
	fs.Parse(argv)
	root := verifRoot()
	start := time.Now()
	if t := os.Getenv("VERIF_TIER"); t != "" && *tier == "" {
		*tier = t
	}
	seed := 0
	if s := os.Getenv("VERIF_SEED"); s != "" {
		seed, _ = strconv.Atoi(s)
	}
	cfgData, err := os.ReadFile(filepath.Join(root, "props", *propID+".json"))
	if err != nil {
		fmt.Fprintf(os.Stderr, "govc: %v\n", err)
		return 2
	}
	var cfg PropConfig
	defer func() { indexPatterns = false }()
	if err := json.Unmarshal(cfgData, &cfg); err == nil {
		indexPatterns = cfg.IndexPatterns
	}
	if err := json.Unmarshal(cfgData, &cfg); err != nil {
		fmt.Fprintf(os.Stderr, "govc: %v\n", err)
		return 2
	}
	// scratch directory (GOWORK redirect, SMT files)
	scratch, err := os.MkdirTemp("", "govc-"+*propID+"-")
	if err != nil {
		fmt.Fprintf(os.Stderr, "govc: %v\n", err)
		return 2
	}
	if !*keep {
		defer os.RemoveAll(scratch)
	} else {
		fmt.Fprintf(os.Stderr, "govc: keeping %s\n", scratch)
	}
	gowork := filepath.Join(scratch, "go.work")
	os.WriteFile(gowork, []byte(fmt.Sprintf("go 1.23.4\n\nuse (\n\t%s\n\t%s/internal/dnsserver\n)\n", *repo, *repo)), 0o644)
	if data, err := os.ReadFile(filepath.Join(*repo, "go.work.sum")); err == nil {
		os.WriteFile(filepath.Join(scratch, "go.work.sum"), data, 0o644)
	}
	statusBefore := gitStatus(*repo)
	loadStart := time.Now()
	p, err := loadProgram(*repo, cfg.Packages, []string{filepath.Join(root, "contracts", "ext")}, gowork)
	if err != nil {
		fmt.Fprintf(os.Stderr, "govc: %v\n", err)
		return 2
	}
	if err := p.db.loadSpecDirVerified(filepath.Join(root, "contracts", "dep-verified")); err != nil {
		fmt.Fprintf(os.Stderr, "govc: %v\n", err)
		return 2
	}
	p.loadSecs = time.Since(loadStart).Seconds()
	if gitStatus(*repo) != statusBefore {
		fmt.Fprintf(os.Stderr, "govc: the go tool modified %s (tool error)\n", *repo)
		return 2
	}

	// targets
	var results []*FuncResult
	var drift []string
	var keys []string
	for k, s := range p.db.Funcs {
		if s.Assumed {
			continue
		}
		if *allProps || contains(s.Props, cfg.ID) {
			keys = append(keys, k)
		}
	}
	sort.Strings(keys)
	genStart := time.Now()
	for _, k := range keys {
		if *only != "" && !strings.Contains(k, *only) {
			continue
		}
		fn := p.findFunc(k)
		if fn == nil {
			drift = append(drift, fmt.Sprintf("anchor %s missing (contract at %s:%d)", calleeShort(k), p.db.Funcs[k].File, p.db.Funcs[k].Line))
			continue
		}
		results = append(results, p.verifyFunction(fn, p.db.Funcs[k]))
	}
	for _, l := range p.db.Lemmas {
		if *allProps || contains(l.Props, cfg.ID) {
			if *only != "" && !strings.Contains(l.Name, *only) {
				continue
			}
			results = append(results, p.verifyLemma(l))
		}
	}
	genSecs := time.Since(genStart).Seconds()

	var obls []*Obligation
	var toolErrs []string
	for _, r := range results {
		for _, e := range r.Errors {
			toolErrs = append(toolErrs, r.Name+": "+e)
		}
		obls = append(obls, r.VC.obls...)
	}
	timeout := 25
	if *tier == "thorough" {
		timeout = 60
	}
	smtDir := filepath.Join(scratch, "smt")
	os.MkdirAll(smtDir, 0o755)
	solveStart := time.Now()
	sres := solveAll(obls, smtDir, 16, timeout, *tier == "thorough")
	solveSecs := time.Since(solveStart).Seconds()

	// verdicts
	known, _ := loadKnownFindings(filepath.Join(root, "known_findings.txt"))
	var failed, knownHit []*SolveResult
	var vacuous []*SolveResult
	var disagreements []string
	nObl, nDis, nCover, nCoverOK := 0, 0, 0, 0
	backends := map[string]int{}
	var solverTime float64
	for _, r := range sres {
		solverTime += r.Secs
		if r.Obl.Vacuity {
			nCover++
			switch r.Status {
			case "sat":
				nCoverOK++
			case "unsat":
				vacuous = append(vacuous, r)
			}
			continue
		}
		nObl++
		if *tier == "thorough" {
			seen := map[string]bool{}
			for _, st := range r.PerSolver {
				if st == "sat" || st == "unsat" {
					seen[st] = true
				}
			}
			if len(seen) > 1 {
				disagreements = append(disagreements, r.Obl.Name)
			}
		}
		if r.Status == "unsat" {
			nDis++
			backends[r.Solver]++
			continue
		}
		isKnown := false
		for _, kf := range known {
			if kf.Prop == cfg.ID && kf.Obligation == r.Obl.Name {
				isKnown = true
				fmt.Printf("KNOWN-FINDING: property=%s %s %s\n", cfg.ID, r.Obl.Name, kf.Text)
			}
		}
		if isKnown {
			knownHit = append(knownHit, r)
		} else {
			failed = append(failed, r)
		}
	}
	if *verbose {
		for _, fr := range results {
			for _, h := range sortedBoolKeys(fr.VC.used.Havocked) {
				fmt.Fprintf(os.Stderr, "havoc in %s: %s\n", fr.Name, h)
			}
			for _, h := range sortedBoolKeys(fr.VC.used.Inlined) {
				fmt.Fprintf(os.Stderr, "inlined in %s: %s\n", fr.Name, h)
			}
		}
		for _, r := range sres {
			fmt.Fprintf(os.Stderr, "%-7s %-7s %6.2fs %7dB %s\n", r.Status, r.Solver, r.Secs, r.Bytes, r.Obl.Name)
		}
	}
	exit := 0
	replayDir := filepath.Join(root, "replays")
	for _, e := range toolErrs {
		fmt.Fprintf(os.Stderr, "govc: contract/translation error: %s\n", e)
	}
	var violations []string
	var deadReturns []string
	emitViolation := func(name, body string, confirmed bool) {
		os.MkdirAll(replayDir, 0o755)
		fn := filepath.Join(replayDir, fmt.Sprintf("%s-%s.txt", cfg.ID, sanitizeFile(name)))
		os.WriteFile(fn, []byte(body), 0o644)
		suffix := " no-failing-input-found"
		if confirmed {
			suffix = ""
		}
		fmt.Printf("VIOLATION property=%s replay=%s%s\n", cfg.ID, fn, suffix)
		violations = append(violations, name)
		exit = 1
	}
	for _, d := range drift {
		emitViolation("drift-"+d, "undecided: "+d+"\nThe contract names a function that no longer exists in the working tree; the property cannot be decided.\n", false)
	}
	if len(toolErrs) > 0 {
		emitViolation("undecided-contract-errors", "undecided: the contracts could not be translated against the current source:\n"+strings.Join(toolErrs, "\n")+"\n", false)
	}
	for _, r := range failed {
		body, confirmed := describeFailure(p, &cfg, r, root, *repo, scratch)
		emitViolation(r.Obl.Name, body, confirmed)
	}
	// Vacuity: a contradictory precondition, or a function none of whose
	// returns is reachable, makes every obligation hold vacuously.  A single
	// unreachable return (dead code under the precondition) is only reported.
	reachableRet := map[string]bool{}
	hasRet := map[string]bool{}
	for _, r := range sres {
		if r.Obl.Vacuity && strings.Contains(r.Obl.Name, "#cover[return") {
			hasRet[r.Obl.Func] = true
			if r.Status != "unsat" {
				reachableRet[r.Obl.Func] = true
			}
		}
	}
	for _, r := range vacuous {
		isRet := strings.Contains(r.Obl.Name, "#cover[return")
		if isRet && reachableRet[r.Obl.Func] {
			deadReturns = append(deadReturns, r.Obl.Name+" at "+p.relPos0(r.Obl.Pos))
			continue
		}
		fmt.Fprintf(os.Stderr, "govc: VACUITY: %s is unreachable / assumptions are contradictory (%s)\n", r.Obl.Name, r.Obl.Pos)
		emitViolation(r.Obl.Name, "undecided: vacuity guard failed: "+r.Obl.Name+" at "+r.Obl.Pos.String()+" is unreachable under the contract's assumptions, so obligations behind it would hold vacuously.\n", false)
	}
	// Bounded stand-ins: functions outside the verifier's reach are exercised
	// exhaustively up to a stated bound on the real code (never counted as
	// proved).  Skipped when only part of the property is being looked at.
	boundedRuns := []map[string]any{}
	if *only == "" {
		for _, b := range cfg.Bounded {
			if b.Test == "" {
				continue
			}
			bstart := time.Now()
			os.Setenv("GOVC_BOUND_TIER", *tier)
			out, failedRun, err := runReplayTest(*repo, root, scratch, ReplaySpec{Pkg: b.Pkg, File: b.File, Test: b.Test}, map[string]string{})
			rec := map[string]any{"function": b.Function, "bound": b.Bound, "test": b.Test, "counted_as_proved": false, "wall_s": time.Since(bstart).Seconds()}
			switch {
			case err != nil:
				rec["result"] = "could not run"
				emitViolation("bounded-"+b.Test, "undecided: the bounded stand-in "+b.Test+" could not be built or run:\n"+out+"\n"+err.Error()+"\n", false)
			case failedRun:
				rec["result"] = "failed"
				emitViolation("bounded-"+b.Test, "property: "+cfg.ID+"\nfailed obligation: bounded-"+b.Test+"\nkind: bounded stand-in (not a proof obligation)\nbound: "+b.Bound+"\nThe bounded check failed on the real code:\n"+out+"\n", true)
			default:
				rec["result"] = "held on everything enumerated"
			}
			boundedRuns = append(boundedRuns, rec)
			if *verbose {
				fmt.Fprintf(os.Stderr, "bounded %s: %v (%.1fs)\n", b.Test, rec["result"], rec["wall_s"])
			}
		}
	}
	lastBoundedRuns = boundedRuns
	for _, d := range disagreements {
		fmt.Fprintf(os.Stderr, "govc: solver disagreement on %s\n", d)
		exit = 2
	}
	if nObl == 0 && exit == 0 {
		fmt.Fprintf(os.Stderr, "govc: no obligations generated for %s (vacuous check)\n", cfg.ID)
		exit = 2
	}

	// evidence
	if !*noEvidence && *only == "" {
		writeEvidence(root, &cfg, *tier, seed, results, sres, nObl, nDis, nCover, nCoverOK, backends, solverTime, p, time.Since(start).Seconds(), violations, knownHit, genSecs, solveSecs)
	}
	for _, d := range deadReturns {
		fmt.Fprintf(os.Stderr, "govc: note: return unreachable under the contract's precondition: %s\n", d)
	}
	fmt.Fprintf(os.Stderr, "govc: %s: %d functions, %d obligations, %d discharged, %d covers (%d reachable), load %.1fs gen %.1fs solve %.1fs\n",
		cfg.ID, len(results), nObl, nDis, nCover, nCoverOK, p.loadSecs, genSecs, solveSecs)
	return exit
}

func contains(xs []string, x string) bool {
	for _, y := range xs {
		if y == x {
			return true
		}
	}
	return false
}

func sanitizeFile(s string) string {
	s = sanitize(s)
	if len(s) > 120 {
		s = s[:120]
	}
	return s
}

func gitStatus(repo string) string {
	out, _ := exec.Command("git", "-C", repo, "status", "--porcelain").Output()
	return string(out)
}

func describeFailure(p *Prog, cfg *PropConfig, r *SolveResult, root, repo, scratch string) (string, bool) {
	var sb strings.Builder
	fmt.Fprintf(&sb, "property: %s\nfailed obligation: %s\nkind: %s\nfunction: %s\nsource: %s\nmeaning: %s\nsolver verdict: %s (%s, %.2fs)\n",
		cfg.ID, r.Obl.Name, r.Obl.Kind, r.Obl.Func, r.Obl.Pos, r.Obl.Desc, r.Status, r.Solver, r.Secs)
	for s, st := range r.PerSolver {
		fmt.Fprintf(&sb, "  %s: %s\n", s, st)
	}
	confirmed := false
	if r.Status == "sat" {
		model := evalScalars(r)
		fmt.Fprintf(&sb, "\ncounterexample (values of the named scalars under the solver's model):\n%s\n", model)
		if out, ok := tryReplay(p, cfg, r, root, repo, scratch); out != "" {
			fmt.Fprintf(&sb, "\nreplay against the real code:\n%s\n", out)
			confirmed = ok
		}
	} else {
		fmt.Fprintf(&sb, "\nno model: the solvers could not decide the obligation (undischarged, reported as a violation without a failing input)\nsolver output:\n%s\n", truncate(r.Output, 2000))
		// the replay oracle has default inputs: it may still exhibit a failing input
		if out, ok := tryReplay(p, cfg, r, root, repo, scratch); out != "" {
			fmt.Fprintf(&sb, "\nreplay against the real code (default inputs of the oracle):\n%s\n", out)
			confirmed = ok
		}
	}
	return sb.String(), confirmed
}

// extractModel keeps the model lines of parameters and a few named values.
func extractModel(out string) string {
	var keep []string
	lines := strings.Split(out, "\n")
	for i := 0; i < len(lines); i++ {
		l := lines[i]
		if strings.Contains(l, "(define-fun p_") || strings.Contains(l, "(define-fun fv_") || strings.Contains(l, "(define-fun ld_") || strings.Contains(l, "(define-fun l_") {
			entry := strings.TrimSpace(l)
			depth := strings.Count(l, "(") - strings.Count(l, ")")
			for depth > 0 && i+1 < len(lines) {
				i++
				entry += " " + strings.TrimSpace(lines[i])
				depth += strings.Count(lines[i], "(") - strings.Count(lines[i], ")")
			}
			keep = append(keep, "  "+entry)
		}
	}
	if len(keep) > 60 {
		keep = keep[:60]
	}
	return strings.Join(keep, "\n")
}

type evidenceCoverage struct {
	Obligations  int      `json:"obligations"`
	Discharged   int      `json:"discharged"`
	CheckerCmd   string   `json:"checker_cmd"`
	TrustedBase  []string `json:"trusted_base"`
	Functions    []string `json:"functions_under_contract"`
	Backends     map[string]int `json:"backends"`
	SolverTimeS  float64  `json:"solver_time_s"`
	Samples      []map[string]any `json:"samples"`
	Vacuity      map[string]int `json:"vacuity"`
	Inlined      []string `json:"inlined"`
	Havocked     []string `json:"calls_without_contract_havocked"`
	Bounded      []map[string]any `json:"bounded_standins"`
	KnownHit     []string `json:"known_findings_hit"`
	Failed       []string `json:"failed_obligations"`
	NotDecided   []string `json:"not_decided_by_contracts"`
	ContractsUsed []string `json:"callee_contracts_used"`
	ByKind       map[string]int `json:"obligations_by_kind"`
	Timing       map[string]float64 `json:"timing_s"`
}

type evidence struct {
	PropertyID  string           `json:"property_id"`
	Tier        string           `json:"tier"`
	Seed        int              `json:"seed"`
	Level       string           `json:"level"`
	Coverage    evidenceCoverage `json:"coverage"`
	Assumptions []string         `json:"assumptions"`
	WallS       float64          `json:"wall_s"`
	Violations  int              `json:"violations"`
}

func writeEvidence(root string, cfg *PropConfig, tier string, seed int, results []*FuncResult, sres []*SolveResult, nObl, nDis, nCover, nCoverOK int, backends map[string]int, solverTime float64, p *Prog, wall float64, violations []string, knownHit []*SolveResult, genSecs, solveSecs float64) {
	ev := evidence{PropertyID: cfg.ID, Tier: tier, Seed: seed, Level: "proof", WallS: wall, Violations: len(violations)}
	cov := &ev.Coverage
	// obligations listed as known findings are not claimed: they are reported
	// separately and not counted
	cov.Obligations, cov.Discharged = nObl-len(knownHit), nDis
	cov.CheckerCmd = fmt.Sprintf("govc check --prop %s --tier %s (go/ssa WP generator -> SMT-LIB; z3-new 5.1.0 | z3 4.8.12 | cvc5 1.0.3 raced per obligation)", cfg.ID, tier)
	cov.Backends = backends
	cov.SolverTimeS = solverTime
	cov.Vacuity = map[string]int{"covers": nCover, "reachable": nCoverOK}
	cov.NotDecided = cfg.NotDecided
	cov.ByKind = map[string]int{}
	cov.Timing = map[string]float64{"load": p.loadSecs, "vcgen": genSecs, "solve_wall": solveSecs}
	tb := map[string]bool{}
	assume := map[string]bool{}
	inl := map[string]bool{}
	hav := map[string]bool{}
	used := map[string]bool{}
	for _, r := range results {
		cov.Functions = append(cov.Functions, r.Name)
		for k := range r.VC.used.ExtContracts {
			tb["assumed contract on dependency: "+k] = true
		}
		for k := range r.VC.used.Pure {
			tb["assumed effect-free (observer): "+k] = true
		}
		for k := range r.VC.used.IfaceSpecs {
			tb["assumed interface contract: "+k] = true
		}
		for k := range r.VC.used.Builtins {
			assume[k] = true
		}
		for k := range r.VC.used.Assumes {
			assume[k] = true
		}
		for k := range r.VC.used.Inlined {
			inl[k] = true
		}
		for k := range r.VC.used.Havocked {
			hav[k] = true
		}
		for k := range r.VC.used.Contracts {
			used[k] = true
		}
	}
	tb["govc itself (VC generator written for this task): go/ssa semantics, heap encoding, wrap-around integer encoding"] = true
	tb["SMT solvers z3 5.1.0 / z3 4.8.12 / cvc5 1.0.3"] = true
	tb["go/packages + go/ssa (golang.org/x/tools v0.29.0) build the SSA that is verified from the working tree"] = true
	cov.TrustedBase = sortedBoolKeys(tb)
	cov.Inlined = sortedBoolKeys(inl)
	cov.Havocked = sortedBoolKeys(hav)
	cov.ContractsUsed = sortedBoolKeys(used)
	for _, r := range knownHit {
		cov.KnownHit = append(cov.KnownHit, r.Obl.Name)
	}
	cov.Failed = violations
	n := 0
	for _, r := range sres {
		if r.Obl.Vacuity {
			continue
		}
		cov.ByKind[r.Obl.Kind]++
		if n < 8 && (r.Obl.Kind == "post" || r.Obl.Kind == "lemma" || r.Obl.Kind == "unlock-inv" || r.Obl.Kind == "loop-preserve") {
			cov.Samples = append(cov.Samples, map[string]any{"obligation": r.Obl.Name, "status": r.Status, "solver": r.Solver, "secs": r.Secs, "smt_bytes": r.Bytes, "meaning": r.Obl.Desc})
			n++
		}
	}
	if len(lastBoundedRuns) > 0 {
		cov.Bounded = lastBoundedRuns
	} else {
		for _, b := range cfg.Bounded {
			cov.Bounded = append(cov.Bounded, map[string]any{"function": b.Function, "bound": b.Bound, "counted_as_proved": false})
		}
	}
	for _, a := range cfg.Assumptions {
		assume[a] = true
	}
	assume["termination is not checked (partial correctness) unless a decreases clause is stated"] = true
	assume["package-level variables are not reassigned after initialisation unless a contract's modifies clause names them"] = true
	ev.Assumptions = append(sortedBoolKeys(assume), cov.TrustedBase...)
	data, _ := json.MarshalIndent(ev, "", " ")
	os.MkdirAll(filepath.Join(root, "evidence"), 0o755)
	os.WriteFile(filepath.Join(root, "evidence", cfg.ID+".json"), append(data, '\n'), 0o644)
}

var scalarDeclRe = regexp.MustCompile(`^\((?:define-fun|declare-const) (\S+) (?:\(\) )?(Int|Bool|Real|Slice|Iface)\b`)

// evalScalars re-runs the solver that found the model and asks for the values
// of every named scalar of the script (parameters, loads, phis, results).
func evalScalars(r *SolveResult) string {
	var names []string
	for _, l := range r.Obl.vc.out[:r.Obl.PrefixLen] {
		for _, line := range strings.Split(l, "\n") {
			if m := scalarDeclRe.FindStringSubmatch(line); m != nil {
				names = append(names, m[1])
			}
		}
	}
	if len(names) == 0 {
		return extractModel(r.Output)
	}
	script := r.Obl.Script() + "(get-value (" + strings.Join(names, " ") + "))\n"
	f := r.File + ".values.smt2"
	os.WriteFile(f, []byte(script), 0o644)
	solver := r.Solver
	if solver == "" {
		solver = "z3-new"
	}
	args := []string{"-T:20", f}
	if solver == "cvc5" {
		args = []string{"--tlimit=20000", f}
	}
	out, _ := exec.Command(solver, args...).CombinedOutput()
	txt := string(out)
	if i := strings.Index(txt, "("); i >= 0 {
		txt = txt[i:]
	}
	r.Values = txt
	var keep []string
	for _, line := range strings.Split(txt, "\n") {
		line = strings.TrimSpace(line)
		if strings.HasPrefix(line, "((") {
			line = line[1:]
		}
		if strings.HasPrefix(line, "(") {
			keep = append(keep, "  "+line)
		}
	}
	if len(keep) > 400 {
		keep = keep[:400]
	}
	return strings.Join(keep, "\n")
}

package main

// Specification expression language: lexer, AST and parser.
//
// Grammar (lowest to highest precedence):
//
//	expr    := quant | tern
//	quant   := ('forall'|'exists') binder {',' binder} '::' expr
//	binder  := ident type
//	tern    := iff ['?' expr ':' expr]
//	iff     := impl {'<==>' impl}
//	impl    := or ['==>' impl]
//	or      := and {'||' and}
//	and     := cmp {'&&' cmp}
//	cmp     := add [relop add]
//	add     := mul {('+'|'-') mul}
//	mul     := unary {('*'|'/'|'%') unary}
//	unary   := ('!'|'-') unary | postfix
//	postfix := primary {'.' ident | '.' '(' type ')' | '[' expr ']' | '[' expr ':' expr ']' | '(' args ')'}
//	primary := ident | number | string | char | '(' expr ')'

import (
	"fmt"
	"strings"
	"unicode"
)

type tokKind int

const (
	tEOF tokKind = iota
	tIdent
	tInt
	tString
	tChar
	tOp
)

type stok struct {
	kind tokKind
	text string
	pos  int
}

func lexSpec(s string) ([]stok, error) {
	var toks []stok
	i := 0
	for i < len(s) {
		c := s[i]
		switch {
		case c == ' ' || c == '\t' || c == '\n' || c == '\r':
			i++
		case c == '/' && i+1 < len(s) && s[i+1] == '/':
			// Trailing comment inside a spec line.
			for i < len(s) && s[i] != '\n' {
				i++
			}
		case unicode.IsLetter(rune(c)) || c == '_' || c == '#' || c == '$':
			j := i + 1
			for j < len(s) && (unicode.IsLetter(rune(s[j])) || unicode.IsDigit(rune(s[j])) || s[j] == '_' || s[j] == '$' || s[j] == '#') {
				j++
			}
			toks = append(toks, stok{tIdent, s[i:j], i})
			i = j
		case unicode.IsDigit(rune(c)):
			j := i + 1
			for j < len(s) && (unicode.IsDigit(rune(s[j])) || s[j] == 'x' || s[j] == 'X' || s[j] == '_' || (s[j] >= 'a' && s[j] <= 'f') || (s[j] >= 'A' && s[j] <= 'F')) {
				j++
			}
			toks = append(toks, stok{tInt, strings.ReplaceAll(s[i:j], "_", ""), i})
			i = j
		case c == '"':
			j := i + 1
			for j < len(s) && s[j] != '"' {
				if s[j] == '\\' {
					j++
				}
				j++
			}
			if j >= len(s) {
				return nil, fmt.Errorf("unterminated string at %d in %q", i, s)
			}
			toks = append(toks, stok{tString, s[i : j+1], i})
			i = j + 1
		case c == '\'':
			j := i + 1
			for j < len(s) && s[j] != '\'' {
				if s[j] == '\\' {
					j++
				}
				j++
			}
			if j >= len(s) {
				return nil, fmt.Errorf("unterminated char at %d in %q", i, s)
			}
			toks = append(toks, stok{tChar, s[i : j+1], i})
			i = j + 1
		default:
			ops := []string{"<==>", "==>", "::", "&&", "||", "==", "!=", "<=", ">=", "<<", ">>", "+", "-", "*", "/", "%", "<", ">", "!", "(", ")", "[", "]", ".", ",", "?", ":", "&", "|", "^", "{", "}"}
			matched := false
			for _, op := range ops {
				if strings.HasPrefix(s[i:], op) {
					toks = append(toks, stok{tOp, op, i})
					i += len(op)
					matched = true
					break
				}
			}
			if !matched {
				return nil, fmt.Errorf("unexpected character %q at %d in %q", c, i, s)
			}
		}
	}
	toks = append(toks, stok{tEOF, "", len(s)})
	return toks, nil
}

// SExpr is a specification expression node.
type SExpr struct {
	Op   string   // "ident","int","string","char","unop","binop","call","field","index","slice","quant","tern","typeassert","old"
	Name string   // ident name, operator, field name, quantifier kind
	Args []*SExpr // operands
	// Binders for quantifiers.
	Binders []Binder
	// Type expression for typeassert / conversion.
	Type *TypeExpr
	Src  string
}

type Binder struct {
	Name string
	Type *TypeExpr
}

// TypeExpr is a parsed type expression of the spec language.
type TypeExpr struct {
	Kind string // "name","ptr","slice","array","map","set","seq"
	Pkg  string // for qualified names
	Name string
	Elem *TypeExpr
	Key  *TypeExpr
	Len  string
	Args []*TypeExpr // type arguments of a generic named type
}

func (t *TypeExpr) String() string {
	switch t.Kind {
	case "name":
		n := t.Name
		if t.Pkg != "" {
			n = t.Pkg + "." + t.Name
		}
		if len(t.Args) > 0 {
			var as []string
			for _, a := range t.Args {
				as = append(as, a.String())
			}
			n += "[" + strings.Join(as, ",") + "]"
		}
		return n
	case "ptr":
		return "*" + t.Elem.String()
	case "slice":
		return "[]" + t.Elem.String()
	case "array":
		return "[" + t.Len + "]" + t.Elem.String()
	case "map":
		return "map[" + t.Key.String() + "]" + t.Elem.String()
	}
	return "?"
}

type specParser struct {
	toks []stok
	p    int
	src  string
}

func parseSpecExpr(src string) (*SExpr, error) {
	toks, err := lexSpec(src)
	if err != nil {
		return nil, err
	}
	sp := &specParser{toks: toks, src: src}
	e, err := sp.expr()
	if err != nil {
		return nil, fmt.Errorf("%v in %q", err, src)
	}
	if sp.peek().kind != tEOF {
		return nil, fmt.Errorf("trailing input %q at %d in %q", sp.peek().text, sp.peek().pos, src)
	}
	e.Src = src
	return e, nil
}

func (sp *specParser) peek() stok { return sp.toks[sp.p] }
func (sp *specParser) next() stok { t := sp.toks[sp.p]; sp.p++; return t }
func (sp *specParser) isOp(op string) bool {
	t := sp.peek()
	return t.kind == tOp && t.text == op
}
func (sp *specParser) accept(op string) bool {
	if sp.isOp(op) {
		sp.p++
		return true
	}
	return false
}
func (sp *specParser) expect(op string) error {
	if !sp.accept(op) {
		return fmt.Errorf("expected %q, found %q at %d", op, sp.peek().text, sp.peek().pos)
	}
	return nil
}

func (sp *specParser) expr() (*SExpr, error) {
	t := sp.peek()
	if t.kind == tIdent && (t.text == "forall" || t.text == "exists") {
		sp.next()
		var bs []Binder
		for {
			n := sp.next()
			if n.kind != tIdent {
				return nil, fmt.Errorf("expected binder name at %d", n.pos)
			}
			ty, err := sp.typeExpr()
			if err != nil {
				return nil, err
			}
			bs = append(bs, Binder{n.text, ty})
			if !sp.accept(",") {
				break
			}
		}
		if err := sp.expect("::"); err != nil {
			return nil, err
		}
		// optional explicit trigger: '{' expr {',' expr} '}' (a multi-pattern)
		// (several groups are alternative patterns)
		var trig []*SExpr
		for sp.accept("{") {
			grp := &SExpr{Op: "trig"}
			for {
				te, err := sp.tern()
				if err != nil {
					return nil, err
				}
				grp.Args = append(grp.Args, te)
				if !sp.accept(",") {
					break
				}
			}
			if err := sp.expect("}"); err != nil {
				return nil, err
			}
			trig = append(trig, grp)
		}
		body, err := sp.expr()
		if err != nil {
			return nil, err
		}
		return &SExpr{Op: "quant", Name: t.text, Binders: bs, Args: append([]*SExpr{body}, trig...)}, nil
	}
	return sp.tern()
}

func (sp *specParser) tern() (*SExpr, error) {
	c, err := sp.iff()
	if err != nil {
		return nil, err
	}
	if sp.accept("?") {
		a, err := sp.expr()
		if err != nil {
			return nil, err
		}
		if err := sp.expect(":"); err != nil {
			return nil, err
		}
		b, err := sp.expr()
		if err != nil {
			return nil, err
		}
		return &SExpr{Op: "tern", Args: []*SExpr{c, a, b}}, nil
	}
	return c, nil
}

func (sp *specParser) iff() (*SExpr, error) {
	l, err := sp.impl()
	if err != nil {
		return nil, err
	}
	for sp.accept("<==>") {
		r, err := sp.impl()
		if err != nil {
			return nil, err
		}
		l = &SExpr{Op: "binop", Name: "<==>", Args: []*SExpr{l, r}}
	}
	return l, nil
}

func (sp *specParser) impl() (*SExpr, error) {
	l, err := sp.or()
	if err != nil {
		return nil, err
	}
	if sp.accept("==>") {
		// The right-hand side of an implication may be a quantifier.
		var r *SExpr
		t := sp.peek()
		if t.kind == tIdent && (t.text == "forall" || t.text == "exists") {
			r, err = sp.expr()
		} else {
			r, err = sp.impl()
		}
		if err != nil {
			return nil, err
		}
		return &SExpr{Op: "binop", Name: "==>", Args: []*SExpr{l, r}}, nil
	}
	return l, nil
}

func (sp *specParser) or() (*SExpr, error) {
	l, err := sp.and()
	if err != nil {
		return nil, err
	}
	for sp.accept("||") {
		r, err := sp.and()
		if err != nil {
			return nil, err
		}
		l = &SExpr{Op: "binop", Name: "||", Args: []*SExpr{l, r}}
	}
	return l, nil
}

func (sp *specParser) and() (*SExpr, error) {
	l, err := sp.cmp()
	if err != nil {
		return nil, err
	}
	for sp.accept("&&") {
		var r *SExpr
		t := sp.peek()
		if t.kind == tIdent && (t.text == "forall" || t.text == "exists") {
			r, err = sp.expr()
		} else {
			r, err = sp.cmp()
		}
		if err != nil {
			return nil, err
		}
		l = &SExpr{Op: "binop", Name: "&&", Args: []*SExpr{l, r}}
	}
	return l, nil
}

func (sp *specParser) cmp() (*SExpr, error) {
	l, err := sp.add()
	if err != nil {
		return nil, err
	}
	for _, op := range []string{"==", "!=", "<=", ">=", "<", ">"} {
		if sp.accept(op) {
			r, err := sp.add()
			if err != nil {
				return nil, err
			}
			return &SExpr{Op: "binop", Name: op, Args: []*SExpr{l, r}}, nil
		}
	}
	return l, nil
}

func (sp *specParser) add() (*SExpr, error) {
	l, err := sp.mul()
	if err != nil {
		return nil, err
	}
	for {
		if sp.accept("+") {
			r, err := sp.mul()
			if err != nil {
				return nil, err
			}
			l = &SExpr{Op: "binop", Name: "+", Args: []*SExpr{l, r}}
		} else if sp.accept("-") {
			r, err := sp.mul()
			if err != nil {
				return nil, err
			}
			l = &SExpr{Op: "binop", Name: "-", Args: []*SExpr{l, r}}
		} else {
			return l, nil
		}
	}
}

func (sp *specParser) mul() (*SExpr, error) {
	l, err := sp.unary()
	if err != nil {
		return nil, err
	}
	for {
		matched := false
		for _, op := range []string{"*", "/", "%"} {
			if sp.accept(op) {
				r, err := sp.unary()
				if err != nil {
					return nil, err
				}
				l = &SExpr{Op: "binop", Name: op, Args: []*SExpr{l, r}}
				matched = true
				break
			}
		}
		if !matched {
			return l, nil
		}
	}
}

func (sp *specParser) unary() (*SExpr, error) {
	if sp.accept("!") {
		x, err := sp.unary()
		if err != nil {
			return nil, err
		}
		return &SExpr{Op: "unop", Name: "!", Args: []*SExpr{x}}, nil
	}
	if sp.accept("-") {
		x, err := sp.unary()
		if err != nil {
			return nil, err
		}
		return &SExpr{Op: "unop", Name: "-", Args: []*SExpr{x}}, nil
	}
	return sp.postfix()
}

func (sp *specParser) postfix() (*SExpr, error) {
	x, err := sp.primary()
	if err != nil {
		return nil, err
	}
	for {
		switch {
		case sp.accept("."):
			if sp.accept("(") {
				ty, err := sp.typeExpr()
				if err != nil {
					return nil, err
				}
				if err := sp.expect(")"); err != nil {
					return nil, err
				}
				x = &SExpr{Op: "typeassert", Type: ty, Args: []*SExpr{x}}
				continue
			}
			if sp.accept("*") {
				x = &SExpr{Op: "field", Name: "*", Args: []*SExpr{x}}
				continue
			}
			n := sp.next()
			if n.kind != tIdent {
				return nil, fmt.Errorf("expected field name at %d", n.pos)
			}
			x = &SExpr{Op: "field", Name: n.text, Args: []*SExpr{x}}
		case sp.accept("["):
			var lo, hi *SExpr
			if !sp.isOp(":") {
				lo, err = sp.expr()
				if err != nil {
					return nil, err
				}
			}
			if sp.accept(":") {
				if !sp.isOp("]") {
					hi, err = sp.expr()
					if err != nil {
						return nil, err
					}
				}
				if err := sp.expect("]"); err != nil {
					return nil, err
				}
				x = &SExpr{Op: "slice", Args: []*SExpr{x, lo, hi}}
			} else {
				if err := sp.expect("]"); err != nil {
					return nil, err
				}
				x = &SExpr{Op: "index", Args: []*SExpr{x, lo}}
			}
		case sp.accept("("):
			var args []*SExpr
			if !sp.isOp(")") {
				for {
					a, err := sp.expr()
					if err != nil {
						return nil, err
					}
					args = append(args, a)
					if !sp.accept(",") {
						break
					}
				}
			}
			if err := sp.expect(")"); err != nil {
				return nil, err
			}
			x = &SExpr{Op: "call", Args: append([]*SExpr{x}, args...)}
		default:
			return x, nil
		}
	}
}

func (sp *specParser) primary() (*SExpr, error) {
	t := sp.next()
	switch t.kind {
	case tIdent:
		return &SExpr{Op: "ident", Name: t.text}, nil
	case tInt:
		return &SExpr{Op: "int", Name: t.text}, nil
	case tString:
		return &SExpr{Op: "string", Name: t.text}, nil
	case tChar:
		return &SExpr{Op: "char", Name: t.text}, nil
	case tOp:
		if t.text == "(" {
			e, err := sp.expr()
			if err != nil {
				return nil, err
			}
			if err := sp.expect(")"); err != nil {
				return nil, err
			}
			return e, nil
		}
		if t.text == "*" || t.text == "[" {
			// a type expression used as an argument: *T, []T, [N]T
			sp.p--
			ty, err := sp.typeExpr()
			if err != nil {
				return nil, err
			}
			return &SExpr{Op: "type", Type: ty}, nil
		}
	}
	return nil, fmt.Errorf("unexpected token %q at %d", t.text, t.pos)
}

func (sp *specParser) typeExpr() (*TypeExpr, error) {
	if sp.accept("*") {
		e, err := sp.typeExpr()
		if err != nil {
			return nil, err
		}
		return &TypeExpr{Kind: "ptr", Elem: e}, nil
	}
	if sp.accept("[") {
		if sp.accept("]") {
			e, err := sp.typeExpr()
			if err != nil {
				return nil, err
			}
			return &TypeExpr{Kind: "slice", Elem: e}, nil
		}
		n := sp.next()
		if n.kind != tInt {
			return nil, fmt.Errorf("expected array length at %d", n.pos)
		}
		if err := sp.expect("]"); err != nil {
			return nil, err
		}
		e, err := sp.typeExpr()
		if err != nil {
			return nil, err
		}
		return &TypeExpr{Kind: "array", Len: n.text, Elem: e}, nil
	}
	t := sp.next()
	if t.kind != tIdent {
		return nil, fmt.Errorf("expected type at %d, found %q", t.pos, t.text)
	}
	if t.text == "map" {
		if err := sp.expect("["); err != nil {
			return nil, err
		}
		k, err := sp.typeExpr()
		if err != nil {
			return nil, err
		}
		if err := sp.expect("]"); err != nil {
			return nil, err
		}
		v, err := sp.typeExpr()
		if err != nil {
			return nil, err
		}
		return &TypeExpr{Kind: "map", Key: k, Elem: v}, nil
	}
	te := &TypeExpr{Kind: "name", Name: t.text}
	if sp.isOp(".") && sp.toks[sp.p+1].kind == tIdent {
		sp.next()
		n := sp.next()
		te = &TypeExpr{Kind: "name", Pkg: t.text, Name: n.text}
	}
	// type arguments: Name[T1, T2] (only directly after a name, and only when a
	// type follows the bracket)
	if sp.isOp("[") && sp.p+1 < len(sp.toks) && (sp.toks[sp.p+1].kind == tIdent || sp.toks[sp.p+1].text == "*" || sp.toks[sp.p+1].text == "[") {
		save := sp.p
		sp.next()
		var args []*TypeExpr
		ok := true
		for {
			a, err := sp.typeExpr()
			if err != nil {
				ok = false
				break
			}
			args = append(args, a)
			if !sp.accept(",") {
				break
			}
		}
		if ok && sp.accept("]") {
			te.Args = args
		} else {
			sp.p = save
		}
	}
	return te, nil
}

// parseTypeExprString parses a standalone type expression.
func parseTypeExprString(s string) (*TypeExpr, error) {
	toks, err := lexSpec(s)
	if err != nil {
		return nil, err
	}
	sp := &specParser{toks: toks, src: s}
	t, err := sp.typeExpr()
	if err != nil {
		return nil, err
	}
	if sp.peek().kind != tEOF {
		return nil, fmt.Errorf("trailing input in type %q", s)
	}
	return t, nil
}

func (e *SExpr) String() string {
	if e == nil {
		return "<nil>"
	}
	switch e.Op {
	case "ident", "int", "string", "char":
		return e.Name
	case "unop":
		return e.Name + e.Args[0].String()
	case "binop":
		return "(" + e.Args[0].String() + " " + e.Name + " " + e.Args[1].String() + ")"
	case "field":
		return e.Args[0].String() + "." + e.Name
	case "index":
		return e.Args[0].String() + "[" + e.Args[1].String() + "]"
	case "slice":
		return e.Args[0].String() + "[" + e.Args[1].String() + ":" + e.Args[2].String() + "]"
	case "call":
		var as []string
		for _, a := range e.Args[1:] {
			as = append(as, a.String())
		}
		return e.Args[0].String() + "(" + strings.Join(as, ", ") + ")"
	case "tern":
		return "(" + e.Args[0].String() + " ? " + e.Args[1].String() + " : " + e.Args[2].String() + ")"
	case "quant":
		var bs []string
		for _, b := range e.Binders {
			bs = append(bs, b.Name+" "+b.Type.String())
		}
		return "(" + e.Name + " " + strings.Join(bs, ", ") + " :: " + e.Args[0].String() + ")"
	case "typeassert":
		return e.Args[0].String() + ".(" + e.Type.String() + ")"
	case "type":
		return e.Type.String()
	}
	return "?" + e.Op
}

package main

// Loading of the repository, SSA construction, contract database, and the
// per-function verification driver.

import (
	"fmt"
	"go/token"
	"go/types"
	"os"
	"path/filepath"
	"sort"
	"strings"

	"golang.org/x/tools/go/packages"
	"golang.org/x/tools/go/ssa"
	"golang.org/x/tools/go/ssa/ssautil"
)

type Prog struct {
	prog        *ssa.Program
	fset        *token.FileSet
	pkgs        []*packages.Package
	tpkgs       map[string]*types.Package
	db          *SpecDB
	funcs       map[string]*ssa.Function
	storageSort map[string]string
	structTypes map[string]types.Type // struct datatype sort name -> Go type (to redeclare it in a later query)
	repo        string
	protHeaps   map[string][]*LockSpec
	loadSecs    float64
}

const contractFileName = "zz_contracts_verif.go"

func loadProgram(repo string, pkgPaths []string, extDirs []string, gowork string) (*Prog, error) {
	env := append(os.Environ(), "GOFLAGS=", "GOPROXY=off", "GOSUMDB=off", "GOTOOLCHAIN=local")
	if gowork != "" {
		env = append(env, "GOWORK="+gowork)
	}
	cfg := &packages.Config{
		Mode:       packages.LoadAllSyntax,
		Dir:        repo,
		BuildFlags: []string{"-tags=verif"},
		Env:        env,
	}
	pkgs, err := packages.Load(cfg, pkgPaths...)
	if err != nil {
		return nil, fmt.Errorf("loading packages: %v", err)
	}
	nerr := 0
	packages.Visit(pkgs, nil, func(p *packages.Package) {
		for _, e := range p.Errors {
			if nerr < 10 {
				fmt.Fprintf(os.Stderr, "load error: %v\n", e)
			}
			nerr++
		}
	})
	if nerr > 0 {
		return nil, fmt.Errorf("%d errors while loading packages", nerr)
	}
	prog, _ := ssautil.AllPackages(pkgs, ssa.InstantiateGenerics|ssa.GlobalDebug)
	prog.Build()
	p := &Prog{prog: prog, pkgs: pkgs, tpkgs: map[string]*types.Package{}, db: newSpecDB(), funcs: map[string]*ssa.Function{}, repo: repo, storageSort: map[string]string{}}
	if len(pkgs) > 0 {
		p.fset = pkgs[0].Fset
	}
	packages.Visit(pkgs, nil, func(pk *packages.Package) {
		if pk.Types != nil {
			p.tpkgs[pk.PkgPath] = pk.Types
		}
	})
	for fn := range ssautil.AllFunctions(prog) {
		if old, dup := p.funcs[fn.String()]; dup && os.Getenv("GOVC_DEBUG") != "" {
			fmt.Fprintf(os.Stderr, "duplicate function name %s: %s and %s\n", fn.String(), p.fset.Position(old.Pos()), p.fset.Position(fn.Pos()))
		}
		p.funcs[fn.String()] = fn
	}
	// contract files of every loaded repository package
	var dirs []string
	seenDir := map[string]bool{}
	packages.Visit(pkgs, nil, func(pk *packages.Package) {
		if !strings.HasPrefix(pk.PkgPath, "github.com/AdguardTeam/AdGuardDNS") {
			return
		}
		for _, f := range pk.GoFiles {
			d := filepath.Dir(f)
			if !seenDir[d] {
				seenDir[d] = true
				dirs = append(dirs, d+"\x00"+pk.PkgPath)
			}
		}
	})
	sort.Strings(dirs)
	for _, dp := range dirs {
		parts := strings.SplitN(dp, "\x00", 2)
		cf := filepath.Join(parts[0], contractFileName)
		if _, err := os.Stat(cf); err == nil {
			if err := p.db.loadSpecFile(cf, parts[1], false); err != nil {
				return nil, err
			}
		}
	}
	for _, d := range extDirs {
		if err := p.db.loadSpecDir(d, true); err != nil {
			return nil, err
		}
	}
	return p, nil
}

func (p *Prog) relPos(pos token.Pos) string {
	if !pos.IsValid() {
		return "?"
	}
	ps := p.fset.Position(pos)
	f := ps.Filename
	if rel, err := filepath.Rel(p.repo, f); err == nil && !strings.HasPrefix(rel, "..") {
		f = rel
	}
	return fmt.Sprintf("%s:%d", f, ps.Line)
}

// specFor finds the contract of fn (instances of generic functions fall back
// to the contract of the generic origin).
func (p *Prog) specFor(fn *ssa.Function) *FuncSpec {
	name := fn.String()
	if s, ok := p.db.Funcs[name]; ok {
		return s
	}
	// methods of instantiated generic types print as (*pkg.T[args]).M[args]
	if strings.HasPrefix(name, "(") && strings.HasSuffix(name, "]") {
		if i := strings.LastIndex(name, ")."); i >= 0 {
			if j := strings.Index(name[i:], "["); j >= 0 {
				if s, ok := p.db.Funcs[name[:i+j]]; ok {
					return s
				}
			}
		}
	}
	if o := fn.Origin(); o != nil {
		if s, ok := p.db.Funcs[o.String()]; ok {
			return s
		}
	}
	return nil
}

func namedKey(t types.Type) string {
	if n, ok := t.(*types.Named); ok && n.Obj().Pkg() != nil {
		return n.Obj().Pkg().Path() + "." + n.Obj().Name()
	}
	if n, ok := t.(*types.Named); ok {
		return n.Obj().Name()
	}
	return ""
}

// ifaceSpec finds the interface contract for method m called on static
// interface type t.
func (p *Prog) ifaceSpec(t types.Type, m *types.Func) *FuncSpec {
	// a contract for one instantiation of a generic interface, selected by its
	// first type argument: `interface pkg.I<string> method M`
	if n, ok := t.(*types.Named); ok && n.TypeArgs() != nil && n.TypeArgs().Len() > 0 {
		arg := types.TypeString(n.TypeArgs().At(0), func(pk *types.Package) string { return pk.Name() })
		if s, ok := p.db.Ifaces[namedKey(t)+"<"+arg+">."+m.Name()]; ok {
			return s
		}
	}
	if k := namedKey(t); k != "" {
		if s, ok := p.db.Ifaces[k+"."+m.Name()]; ok {
			return s
		}
	}
	// the interface that declares the method (embedded interfaces)
	if recv := m.Type().(*types.Signature).Recv(); recv != nil {
		if k := namedKey(recv.Type()); k != "" {
			if s, ok := p.db.Ifaces[k+"."+m.Name()]; ok {
				return s
			}
			if s, ok := p.db.Ifaces[k+".*"]; ok {
				return s
			}
		}
	}
	// wildcard: every method of an observer interface
	if k := namedKey(t); k != "" {
		if s, ok := p.db.Ifaces[k+".*"]; ok {
			return s
		}
	}
	// any declared interface contract whose interface the static type implements
	var keys []string
	for k := range p.db.Ifaces {
		keys = append(keys, k)
	}
	sort.Strings(keys)
	for _, k := range keys {
		s := p.db.Ifaces[k]
		if s.Method != m.Name() {
			continue
		}
		it := p.lookupNamed(s.Iface)
		if it == nil {
			continue
		}
		if iface, ok := it.Underlying().(*types.Interface); ok && types.Implements(t, iface) {
			return s
		}
	}
	return nil
}

func (p *Prog) lookupNamed(key string) types.Type {
	i := strings.LastIndex(key, ".")
	if i < 0 {
		return nil
	}
	pk := p.tpkgs[key[:i]]
	if pk == nil {
		return nil
	}
	o := pk.Scope().Lookup(key[i+1:])
	if tn, ok := o.(*types.TypeName); ok {
		return tn.Type()
	}
	return nil
}

// protectedHeaps maps storage names to the lock specs protecting them.
func (p *Prog) protectedHeaps(vc *VC) map[string][]*LockSpec {
	if p.protHeaps != nil {
		return p.protHeaps
	}
	p.protHeaps = map[string][]*LockSpec{}
	for _, ls := range p.db.Locks {
		t := p.lookupNamed(ls.TypeKey)
		if t == nil {
			continue
		}
		// evaluate the protects entries with a dummy self, in a scratch VC so
		// that nothing leaks into the script
		scratch := newVC(p, "scratch")
		self := &Val{T: "self", Ty: types.NewPointer(t)}
		for _, m := range scratch.lockProtected(ls, self) {
			p.protHeaps[m.Heap] = append(p.protHeaps[m.Heap], ls)
		}
	}
	return p.protHeaps
}

// ---------------------------------------------------------------------------

// FuncResult is the outcome of generating VCs for one function.
type FuncResult struct {
	Name   string
	Fn     *ssa.Function
	VC     *VC
	Errors []string
}

// verifyFunction generates the obligations of fn against its contract.
func (p *Prog) verifyFunction(fn *ssa.Function, spec *FuncSpec) (out *FuncResult) {
	vc := newVC(p, shortFuncName(fn))
	res := &FuncResult{Name: shortFuncName(fn), Fn: fn, VC: vc}
	defer func() {
		if r := recover(); r != nil {
			if ee, ok := r.(evalError); ok {
				vc.errorf("%s", ee.msg)
				res.Errors = vc.errs
				out = res
				return
			}
			panic(r)
		}
	}()
	fr := vc.newFrame(fn, nil)
	fr.isTop = true
	fr.spec = spec
	vc.top = fr
	sig := fn.Signature
	// parameters
	for i, prm := range fn.Params {
		name := prm.Name()
		if name == "" || name == "_" {
			name = fmt.Sprintf("p%d", i)
		}
		c := "p_" + sanitize(name)
		vc.emit("(declare-const %s %s)", c, vc.sortOf(prm.Type()))
		v := &Val{T: c, Ty: prm.Type()}
		vc.valueFacts(c, prm.Type())
		if i == 0 && sig.Recv() != nil && !spec.NilRecv {
			if _, isPtr := prm.Type().Underlying().(*types.Pointer); isPtr {
				vc.assume(fmt.Sprintf("(and (> %s 0) (< %s alloc@0))", c, c))
				vc.used.Assumes["method receivers are non-nil allocated objects"] = true
			}
		}
		fr.vals[prm] = v
		fr.names[name] = v
	}
	// free variables of a closure verified on its own: cells private to the closure
	for _, fv := range fn.FreeVars {
		et := fv.Type()
		if pt, ok := fv.Type().Underlying().(*types.Pointer); ok {
			et = pt.Elem()
			name := "FV." + sanitize(fv.Name())
			l := &Loc{Kind: RLocal, Heap: name, RootT: et}
			vc.havocStorage(name, vc.sortOf(et))
			vc.assume(vc.rangeFact(vc.st.m[name], et))
			fr.vals[fv] = &Val{Ty: fv.Type(), Loc: l}
			fr.names[fv.Name()] = &Val{Loc: l, Ty: et}
			vc.used.Assumes["captured variables of a closure verified on its own are not written by other code while it runs"] = true
		} else {
			c := "fv_" + sanitize(fv.Name())
			vc.emit("(declare-const %s %s)", c, vc.sortOf(et))
			fr.vals[fv] = &Val{T: c, Ty: et}
			fr.names[fv.Name()] = fr.vals[fv]
		}
	}
	vc.entry = vc.st.clone()
	fr.entrySt = vc.st.clone()
	env := vc.specEnv(fr, nil)
	env.old = fr.entrySt
	// locks held on entry
	for _, h := range spec.LockHeld {
		if h == "*" {
			// the caller holds the lock that protects what this function touches
			vc.lockChecksOff = true
			continue
		}
		vc.enterHeld(fr, h, env)
	}
	for _, l := range spec.Lets {
		if v, ok := vc.evalLet(l, env); ok {
			fr.lets[l.Name] = v
			env.vars[l.Name] = v
		}
	}
	for _, rq := range spec.Requires {
		if t, ok := vc.evalBool(rq, env); ok {
			vc.assume(t)
		}
	}
	for _, as := range spec.Assumes {
		if t, ok := vc.evalBool(as, env); ok {
			vc.assume(t)
			vc.used.Assumes[fmt.Sprintf("assume in %s: %s", shortFuncName(fn), as.Src)] = true
		}
	}
	vc.cover("requires-satisfiable", fn.Pos())
	// frame
	vc.modAll = spec.ModAll
	vc.modHeap = spec.ModHeap
	vc.preserveSelf = vc.preservedHeaps(spec, env)
	vc.modLocs = vc.evalModifies(spec, env)
	vc.checkFrame = true
	rnames := vc.resultNames(spec, nameSig(fn))
	nret := 0
	fr.onReturn = func(fr *Frame, results []*Val, pos token.Pos) {
		nret++
		extra := map[string]*Val{}
		for i, r := range results {
			if i < len(rnames) {
				extra[rnames[i]] = r
			}
			extra[fmt.Sprintf("r%d", i)] = r
		}
		if len(results) == 1 {
			extra["result"] = results[0]
		}
		e := vc.specEnv(fr, extra)
		e.old = fr.entrySt
		vc.applyGhostSets(spec, e, pos)
		e = vc.specEnv(fr, extra)
		e.old = fr.entrySt
		for i, en0 := range spec.Ensures {
			for _, en := range conjuncts(en0) {
				lbl := vc.clauseLabel("ensures", en, i)
				if en != en0 && en0.Label == "" {
					lbl = fmt.Sprintf("ensures:%d.%s", i+1, en.Label)
				}
				if t, ok := vc.evalBool(en, e); ok {
					vc.oblige("post", lbl, t, pos, "postcondition: "+en.Src)
				}
			}
		}
		// locks must not be held at return (unless declared held on entry)
		for id := range vc.st.held {
			if !strings.HasSuffix(id, "#r") && !vc.heldOnEntry[id] {
				vc.oblige("lock", "released", "false", pos, "lock still held at return")
			}
		}
		vc.cover(fmt.Sprintf("return%d", nret), pos)
	}
	vc.ancestors = forwardAncestors(fn)
	vc.runBody(fr)
	res.Errors = vc.errs
	return res
}

// forwardAncestors computes, for every block, the set of blocks that reach it
// in the control-flow graph without back edges (itself included).
func forwardAncestors(fn *ssa.Function) map[int]map[int]bool {
	anc := map[int]map[int]bool{}
	var visit func(b *ssa.BasicBlock) map[int]bool
	visit = func(b *ssa.BasicBlock) map[int]bool {
		if s, ok := anc[b.Index]; ok {
			return s
		}
		s := map[int]bool{b.Index: true}
		anc[b.Index] = s
		for _, p := range b.Preds {
			if b.Dominates(p) {
				continue // back edge
			}
			for k := range visit(p) {
				s[k] = true
			}
		}
		return s
	}
	for _, b := range fn.Blocks {
		visit(b)
	}
	return anc
}

// enterHeld models a function that is entered with a lock held: the lock
// invariant is assumed, and must hold again at every return.
func (vc *VC) enterHeld(fr *Frame, path string, env *Env) {
	parts := strings.Split(path, ".")
	root, ok := fr.names[parts[0]]
	if !ok {
		vc.errorf("held %s: unknown root %s", path, parts[0])
		return
	}
	v := &Val{PRoot: root, PFields: parts[1:]}
	ls, self, id := vc.lockSpecFor(v, nil)
	if ls == nil {
		vc.errorf("held %s: no lock declared for that path", path)
		return
	}
	le := vc.lockEnv(ls, self, fr.entrySt)
	for _, inv := range ls.Invariant {
		if t, ok := vc.evalBool(inv, le); ok {
			vc.assume(t)
		}
	}
	vc.st.held[id] = true
	if vc.heldOnEntry == nil {
		vc.heldOnEntry = map[string]bool{}
	}
	vc.heldOnEntry[id] = true
}

// verifyLemma generates the single obligation of a lemma.
func (p *Prog) verifyLemma(l *LemmaSpec) *FuncResult {
	vc := newVC(p, "lemma:"+l.Name)
	res := &FuncResult{Name: "lemma:" + l.Name, VC: vc}
	defer func() {
		if r := recover(); r != nil {
			if ee, ok := r.(evalError); ok {
				vc.errorf("%s", ee.msg)
				res.Errors = vc.errs
				return
			}
			panic(r)
		}
	}()
	env := &Env{vars: map[string]*Val{}, st: vc.st, old: vc.st, pkg: l.Pkg, imports: l.Imports}
	for _, b := range l.Binders {
		t := vc.resolveType(b.Type, l.Pkg, l.Imports, true)
		c := "l_" + sanitize(b.Name)
		vc.emit("(declare-const %s %s)", c, vc.sortOf(t))
		vc.assume(vc.rangeFact(c, t))
		env.vars[b.Name] = &Val{T: c, Ty: t}
	}
	for _, rq := range l.Requires {
		if t, ok := vc.evalBool(rq, env); ok {
			vc.assume(t)
		}
	}
	vc.cover("requires-satisfiable", token.NoPos)
	for i, en := range l.Ensures {
		if t, ok := vc.evalBool(en, env); ok {
			vc.oblige("lemma", vc.clauseLabel("ensures", en, i), t, token.NoPos, "lemma conclusion: "+en.Src)
		}
	}
	res.Errors = vc.errs
	return res
}

// applyGhostSets executes the ghost assignments of a contract at a return.
func (vc *VC) applyGhostSets(spec *FuncSpec, env *Env, pos token.Pos) {
	type upd struct {
		loc *Loc
		val string
	}
	var ups []upd
	for _, gs := range spec.GhostSets {
		func() {
			defer func() {
				if r := recover(); r != nil {
					if ee, ok := r.(evalError); ok {
						vc.errorf("%s:%d: ghostset %s: %s", gs.File, gs.Line, gs.Src, ee.msg)
						return
					}
					panic(r)
				}
			}()
			env.where = "ghostset " + gs.Src
			t := vc.eval(gs.Target, env)
			v := vc.eval(gs.Value, env)
			if t.Loc == nil || !strings.HasPrefix(t.Loc.Heap, "G.") {
				vc.errorf("%s:%d: ghostset target must be ghost state", gs.File, gs.Line)
				return
			}
			ups = append(ups, upd{t.Loc, v.T})
		}()
	}
	// simultaneous assignment: all right-hand sides were evaluated first
	for _, u := range ups {
		vc.store(u.loc, u.val, pos)
	}
}

// findFunc looks a function up by its contract key; methods of instantiated
// generic types print their type arguments a second time after the method name.
func (p *Prog) findFunc(key string) *ssa.Function {
	if fn := p.funcs[key]; fn != nil {
		return fn
	}
	if strings.HasPrefix(key, "(") {
		if i := strings.Index(key, "["); i >= 0 {
			if j := strings.Index(key[i:], "])."); j >= 0 {
				targs := key[i : i+j+1]
				if fn := p.funcs[key+targs]; fn != nil {
					return fn
				}
			}
		}
	}
	return nil
}

func (p *Prog) relPos0(ps token.Position) string {
	f := ps.Filename
	if rel, err := filepath.Rel(p.repo, f); err == nil && !strings.HasPrefix(rel, "..") {
		f = rel
	}
	return fmt.Sprintf("%s:%d", f, ps.Line)
}

// nameSig returns the signature whose parameter and result NAMES specs use:
// instances of generic functions may lose the source names, their origin
// keeps them.
func nameSig(fn *ssa.Function) *types.Signature {
	if o := fn.Origin(); o != nil && o.Signature.Results().Len() == fn.Signature.Results().Len() {
		return o.Signature
	}
	return fn.Signature
}

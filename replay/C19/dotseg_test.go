package websvc

// Replay oracle for C19 (govc): a path that shouldProxy accepts must stay
// under /linkip/ or /ddns/ after standard dot-segment normalisation.  Strings
// are uninterpreted in the proof, so the replay enumerates the dot-segment
// placements over the accepted lengths instead of reading a model.

import (
	"net/http"
	"path"
	"strings"
	"testing"
)

func TestReplayDotSegments(t *testing.T) {
	segs := []string{"a", ".", "..", "status"}
	var paths []string
	for _, first := range []string{"linkip", "ddns"} {
		for _, s1 := range segs {
			for _, s2 := range segs {
				paths = append(paths, "/"+first+"/"+s1+"/"+s2)
				for _, s3 := range segs {
					paths = append(paths, "/"+first+"/"+s1+"/"+s2+"/"+s3)
				}
			}
		}
	}
	for _, m := range []string{http.MethodGet, http.MethodPost} {
		for _, p := range paths {
			if !shouldProxy(m, p) {
				continue
			}
			clean := path.Clean(p)
			first := strings.SplitN(strings.TrimPrefix(p, "/"), "/", 2)[0]
			if !strings.HasPrefix(clean+"/", "/"+first+"/") {
				t.Errorf("%s %s is proxied, but normalises to %s, outside /%s/", m, p, clean, first)
			}
		}
	}
}

package websvc

// Replay oracle for C19 (govc): the backend receives the connecting peer's
// address in X-Connecting-Ip also when the client names that header in its
// Connection header (ReverseProxy strips the headers listed there before the
// Rewrite function runs).

import (
	"net/http"
	"net/http/httptest"
	"net/url"
	"testing"
	"time"

	"github.com/AdguardTeam/AdGuardDNS/internal/agdtest"
)

func TestReplayHopByHop(t *testing.T) {
	for _, conn := range []string{"", "X-Connecting-Ip", "close, X-Connecting-IP", "X-Request-Id"} {
		var got []string
		var gotReqID []string
		backend := httptest.NewServer(http.HandlerFunc(func(w http.ResponseWriter, r *http.Request) {
			got = r.Header.Values("X-Connecting-Ip")
			gotReqID = r.Header.Values("X-Request-Id")
			w.WriteHeader(http.StatusOK)
		}))
		apiURL, err := url.Parse(backend.URL)
		if err != nil {
			t.Fatal(err)
		}
		h := linkedIPHandler(apiURL, agdtest.NewErrorCollector(), "replay", 5*time.Second)
		req := httptest.NewRequest(http.MethodPost, "/linkip/dev1234/abcdef", nil)
		req.RemoteAddr = "192.0.2.55:12345"
		if conn != "" {
			req.Header.Set("Connection", conn)
		}
		rec := httptest.NewRecorder()
		h.ServeHTTP(rec, req)
		backend.Close()
		if len(got) != 1 || got[0] != "192.0.2.55" {
			t.Errorf("Connection: %q: backend saw X-Connecting-Ip %q, want [192.0.2.55]", conn, got)
		}
		if len(gotReqID) != 1 {
			t.Errorf("Connection: %q: backend saw X-Request-Id %q, want one value", conn, gotReqID)
		}
	}
}

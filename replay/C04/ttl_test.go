package cache

// Replay oracle for C04 (govc): every TTL served from the cache is no greater
// than the record's original TTL minus the time spent in the cache (rounded,
// floor zero).  Inputs: original TTL L and age in milliseconds (taken from the
// solver's model when there is one; otherwise L = 10 s, age = 9.6 s).

import (
	"encoding/json"
	"math"
	"net"
	"os"
	"strconv"
	"testing"
	"time"

	"github.com/miekg/dns"
)

func replayInt(name string, def int64) int64 {
	m := map[string]string{}
	_ = json.Unmarshal([]byte(os.Getenv("GOVC_MODEL")), &m)
	if s, ok := m[name]; ok {
		if n, err := strconv.ParseInt(s, 10, 64); err == nil {
			return n
		}
	}
	return def
}

func TestReplayTTLDecay(t *testing.T) {
	for _, c := range [][2]int64{{replayInt("findLowestTTL_ttl!33", 10), 9600}, {10, 9600}, {1, 700}, {300, 299800}} {
		ttl, ageMs := uint32(c[0]), c[1]
		if ttl == 0 || ttl > 86400 {
			continue
		}
		req := new(dns.Msg)
		req.SetQuestion("example.org.", dns.TypeA)
		stored := new(dns.Msg)
		stored.SetReply(req)
		stored.Answer = []dns.RR{&dns.A{
			Hdr: dns.RR_Header{Name: "example.org.", Rrtype: dns.TypeA, Class: dns.ClassINET, Ttl: ttl},
			A:   net.IP{192, 0, 2, 1},
		}}
		m := &Middleware{}
		age := time.Duration(ageMs) * time.Millisecond
		resp := m.fromCacheItem(cacheItem{msg: stored, when: time.Now().Add(-age)}, req)
		want := math.Max(0, math.Round(float64(ttl)-age.Seconds()))
		for _, rr := range resp.Answer {
			if got := rr.Header().Ttl; float64(got) > want+1 {
				t.Errorf("original TTL %d s, %.1f s in cache: served TTL %d, at most %.0f allowed", ttl, age.Seconds(), got, want)
			}
		}
	}
}

package cache

// Replay oracle for C04 (govc): an answer cached for one DO setting is never
// returned for another.  The upstream (handler) answers a DO query with a
// response that carries no OPT record of its own - a legal answer.

import (
	"context"
	"net"
	"testing"

	"github.com/AdguardTeam/AdGuardDNS/internal/dnsserver"
	"github.com/miekg/dns"
)

func TestReplayKeyFromRequest(t *testing.T) {
	calls := 0
	handler := dnsserver.HandlerFunc(func(ctx context.Context, rw dnsserver.ResponseWriter, req *dns.Msg) error {
		calls++
		resp := new(dns.Msg)
		resp.SetReply(req)
		resp.Answer = []dns.RR{&dns.A{
			Hdr: dns.RR_Header{Name: req.Question[0].Name, Rrtype: dns.TypeA, Class: dns.ClassINET, Ttl: 300},
			A:   net.IP{192, 0, 2, 1},
		}}
		return rw.WriteMsg(ctx, req, resp)
	})
	mw := NewMiddleware(&MiddlewareConfig{Count: 100})
	h := mw.Wrap(handler)
	addr := &net.UDPAddr{IP: net.IP{127, 0, 0, 1}, Port: 53}

	ask := func(do bool) {
		req := new(dns.Msg)
		req.SetQuestion("example.org.", dns.TypeA)
		if do {
			req.SetEdns0(4096, true)
		}
		rw := dnsserver.NewNonWriterResponseWriter(addr, addr)
		if err := h.ServeDNS(context.Background(), rw, req); err != nil {
			t.Fatal(err)
		}
	}
	ask(true) // DO=1: miss, stored
	if calls != 1 {
		t.Fatalf("first query: %d upstream calls", calls)
	}
	ask(true) // DO=1 again: must be a hit
	if calls != 1 {
		t.Errorf("the same DO=1 query was not served from the cache (%d upstream calls): stored under another key", calls)
	}
	calls = 1
	ask(false) // DO=0: a different cache key, must not be served the DO=1 answer
	if calls != 2 {
		t.Errorf("a DO=0 query was served the answer cached for the DO=1 query")
	}
}

package profiledb

// Replay oracle for C14 (govc): a human-ID lookup is addressed to a profile;
// it must not answer with a device that now lives in another profile.

import (
	"context"
	"log/slog"
	"net/netip"
	"sync"
	"testing"

	"github.com/AdguardTeam/AdGuardDNS/internal/agd"
)

func replayDB2() *Default {
	return &Default{
		logger:                slog.Default(),
		mapsMu:                &sync.RWMutex{},
		refreshMu:             &sync.Mutex{},
		metrics:               EmptyMetrics{},
		profiles:              map[agd.ProfileID]*agd.Profile{},
		devices:               map[agd.DeviceID]*agd.Device{},
		deviceIDToProfileID:   map[agd.DeviceID]agd.ProfileID{},
		dedicatedIPToDeviceID: map[netip.Addr]agd.DeviceID{},
		humanIDToDeviceID:     map[humanIDKey]agd.DeviceID{},
		linkedIPToDeviceID:    map[netip.Addr]agd.DeviceID{},
	}
}

func TestReplayHumanIDOtherProfile(t *testing.T) {
	ctx := context.Background()
	db := replayDB2()
	p1 := &agd.Profile{ID: "prof1111", DeviceIDs: []agd.DeviceID{"devA"}}
	db.setProfiles(ctx, []*agd.Profile{p1}, []*agd.Device{{ID: "devA", HumanIDLower: "kid-phone"}}, true)
	if p, d, err := db.ProfileByHumanID(ctx, "prof1111", "kid-phone"); err != nil || p.ID != "prof1111" || d.ID != "devA" {
		t.Fatalf("sanity: %v", err)
	}
	// An incremental synchronisation moves the device to another profile.
	p1b := &agd.Profile{ID: "prof1111"}
	p2 := &agd.Profile{ID: "prof2222", DeviceIDs: []agd.DeviceID{"devA"}}
	db.setProfiles(ctx, []*agd.Profile{p1b, p2}, []*agd.Device{{ID: "devA", HumanIDLower: "kid-phone"}}, false)
	p, d, err := db.ProfileByHumanID(ctx, "prof1111", "kid-phone")
	if err == nil && p.ID != "prof1111" {
		t.Errorf("lookup of human id kid-phone in profile prof1111 answered with profile %s (device %s); no device of prof1111 owns that human id", p.ID, d.ID)
	}
	if p, d, err = db.ProfileByHumanID(ctx, "prof2222", "kid-phone"); err != nil || p.ID != "prof2222" || d.ID != "devA" {
		t.Errorf("lookup in the device's current profile failed: %v", err)
	}
}

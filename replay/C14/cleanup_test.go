package profiledb

// Replay oracle for C14 (govc): looking a device up by linked IP, dedicated
// IP or human ID returns the device that currently owns the key, whatever the
// timing of the background clean-ups relative to synchronisations.
//
// History: the key moves from device A to device B between the lookup that
// schedules a clean-up of the stale entry and the moment the clean-up body
// runs (a legal schedule of the goroutine started by the lookup).

import (
	"context"
	"log/slog"
	"net/netip"
	"sync"
	"testing"
	"time"

	"github.com/AdguardTeam/AdGuardDNS/internal/agd"
)

func replayDB() *Default {
	return &Default{
		logger:                slog.Default(),
		mapsMu:                &sync.RWMutex{},
		refreshMu:             &sync.Mutex{},
		metrics:               EmptyMetrics{},
		profiles:              map[agd.ProfileID]*agd.Profile{},
		devices:               map[agd.DeviceID]*agd.Device{},
		deviceIDToProfileID:   map[agd.DeviceID]agd.ProfileID{},
		dedicatedIPToDeviceID: map[netip.Addr]agd.DeviceID{},
		humanIDToDeviceID:     map[humanIDKey]agd.DeviceID{},
		linkedIPToDeviceID:    map[netip.Addr]agd.DeviceID{},
	}
}

func TestReplayCleanupAfterResync(t *testing.T) {
	ctx := context.Background()
	ip := netip.MustParseAddr("192.0.2.7")
	other := netip.MustParseAddr("192.0.2.8")
	prof := &agd.Profile{ID: "prof1234", DeviceIDs: []agd.DeviceID{"devA", "devB"}}

	// linked IP
	db := replayDB()
	db.setProfiles(ctx, []*agd.Profile{prof}, []*agd.Device{{ID: "devA", LinkedIP: ip}, {ID: "devB"}}, true)
	db.setProfiles(ctx, nil, []*agd.Device{{ID: "devA", LinkedIP: other}}, false) // A gives the address up
	if _, _, err := db.ProfileByLinkedIP(ctx, ip); err == nil {
		t.Fatal("stale linked ip still resolves")
	}
	time.Sleep(50 * time.Millisecond)                                       // let the clean-up started by the lookup finish
	db.setProfiles(ctx, nil, []*agd.Device{{ID: "devB", LinkedIP: ip}}, false) // B now owns the address
	db.removeLinkedIP(ctx, ip)                                               // the clean-up body, scheduled late
	if _, d, err := db.ProfileByLinkedIP(ctx, ip); err != nil || d.ID != "devB" {
		t.Errorf("linked ip %s is owned by devB, lookup says: %v", ip, err)
	}

	// dedicated IP
	db = replayDB()
	db.setProfiles(ctx, []*agd.Profile{prof}, []*agd.Device{{ID: "devA", DedicatedIPs: []netip.Addr{ip}}, {ID: "devB"}}, true)
	db.setProfiles(ctx, nil, []*agd.Device{{ID: "devB", DedicatedIPs: []netip.Addr{ip}}}, false)
	db.removeDedicatedIP(ctx, ip)
	if _, d, err := db.ProfileByDedicatedIP(ctx, ip); err != nil || d.ID != "devB" {
		t.Errorf("dedicated ip %s is owned by devB, lookup says: %v", ip, err)
	}

	// human ID
	db = replayDB()
	db.setProfiles(ctx, []*agd.Profile{prof}, []*agd.Device{{ID: "devA", HumanIDLower: "kid-phone"}, {ID: "devB"}}, true)
	db.setProfiles(ctx, nil, []*agd.Device{{ID: "devB", HumanIDLower: "kid-phone"}}, false)
	db.removeHumanID(ctx, humanIDKey{lower: "kid-phone", profile: "prof1234"})
	if _, d, err := db.ProfileByHumanID(ctx, "prof1234", "kid-phone"); err != nil || d.ID != "devB" {
		t.Errorf("human id kid-phone is owned by devB, lookup says: %v", err)
	}

	// device ID
	db = replayDB()
	db.setProfiles(ctx, []*agd.Profile{prof}, []*agd.Device{{ID: "devA"}, {ID: "devB"}}, true)
	db.removeDevice(ctx, "devA")
	if _, d, err := db.ProfileByDeviceID(ctx, "devA"); err != nil || d.ID != "devA" {
		t.Errorf("device devA belongs to prof1234, lookup says: %v", err)
	}
}

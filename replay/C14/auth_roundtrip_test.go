package filecachepb

// Replay oracle for C14/C03 (govc): a device's authentication settings read
// back from the file cache are the ones that were stored.
//
// History: the backend delivers a device with authentication enabled
// (DoH-only) and no password hash, which the backend converter turns into
// "any password" (AllowAuthenticator).  The profile database stores it in the
// file cache; after a restart the device is loaded from the file.  Its
// settings must still come with a usable authenticator: the device finder
// calls it for every DoH request that carries a password.

import (
	"context"
	"testing"

	"github.com/AdguardTeam/AdGuardDNS/internal/agd"
	"github.com/AdguardTeam/AdGuardDNS/internal/agdpasswd"
)

func TestReplayAuthWithoutHashSurvivesTheFileCache(t *testing.T) {
	stored := &agd.AuthSettings{
		Enabled:      true,
		DoHAuthOnly:  true,
		PasswordHash: agdpasswd.AllowAuthenticator{},
	}

	got, err := authToProtobuf(stored).toInternal()
	if err != nil {
		t.Fatal(err)
	}
	if !got.Enabled || !got.DoHAuthOnly {
		t.Fatalf("settings changed: %+v", got)
	}
	if got.PasswordHash == nil {
		t.Fatalf("after the round trip through the file cache the enabled settings have no authenticator; the device finder's PasswordHash.Authenticate call panics for the first DoH request with a password")
	}
	if !got.PasswordHash.Authenticate(context.Background(), []byte("any")) {
		t.Fatalf("no hash stored means any password is accepted")
	}
}

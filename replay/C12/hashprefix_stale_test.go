package hashprefix

// Replay oracle for C12 (govc): after a hash list has been updated, no later
// request is answered from a result computed with the old list.
//
// Schedule: request A has looked its host up in the OLD hashes and is about to
// store the verdict in the result cache; a complete refresh (new hashes, cache
// cleared) runs at that moment (before the repair) or as soon as the lock lets
// it (after the repair); then A's store lands.  A later request for the same
// host must see the new list.

import (
	"context"
	"log/slog"
	"net/url"
	"os"
	"path/filepath"
	"sync"
	"testing"
	"time"

	"github.com/AdguardTeam/AdGuardDNS/internal/agdcache"
	"github.com/AdguardTeam/AdGuardDNS/internal/dnsmsg"
	"github.com/AdguardTeam/AdGuardDNS/internal/filter/internal"
	"github.com/miekg/dns"
)

// replayCache delays the first Set until the refresh has had its chance.
type replayCache struct {
	agdcache.Interface[internal.CacheKey, *cacheItem]
	once   sync.Once
	before func()
}

func (c *replayCache) Set(k internal.CacheKey, v *cacheItem) {
	c.once.Do(c.before)
	c.Interface.Set(k, v)
}

func TestReplayStaleAfterRefresh(t *testing.T) {
	const host = "bad.example"
	hashes, err := NewStorage(host + "\n")
	if err != nil {
		t.Fatal(err)
	}
	cloner := dnsmsg.NewCloner(dnsmsg.EmptyClonerStat{})
	msgs, err := dnsmsg.NewConstructor(&dnsmsg.ConstructorConfig{
		Cloner:              cloner,
		BlockingMode:        &dnsmsg.BlockingModeNullIP{},
		StructuredErrors:    &dnsmsg.StructuredDNSErrorsConfig{Enabled: false},
		FilteredResponseTTL: 10 * time.Second,
		EDEEnabled:          false,
	})
	if err != nil {
		t.Fatal(err)
	}
	listPath := filepath.Join(t.TempDir(), "hashes.txt")
	if wErr := os.WriteFile(listPath, []byte("other.example\n"), 0o600); wErr != nil { // the new list no longer has the host
		t.Fatal(wErr)
	}
	f, err := NewFilter(&FilterConfig{
		Logger:          slog.Default(),
		Cloner:          cloner,
		CacheManager:    agdcache.EmptyManager{},
		Hashes:          hashes,
		URL:             &url.URL{Scheme: "file", Path: listPath},
		Metrics:         internal.EmptyMetrics{},
		ID:              internal.IDSafeBrowsing,
		CachePath:       listPath,
		ReplacementHost: "192.0.2.1",
		Staleness:       time.Hour,
		CacheTTL:        time.Hour,
		RefreshTimeout:  time.Second,
		CacheCount:      100,
		MaxSize:         1 << 20,
	})
	if err != nil {
		t.Fatal(err)
	}
	inner := f.resCache

	refreshed := make(chan struct{})
	rc := &replayCache{Interface: inner}
	rc.before = func() {
		go func() {
			defer close(refreshed)
			if rErr := f.refresh(context.Background(), false); rErr != nil {
				t.Errorf("refresh: %v", rErr)
			}
		}()
		select {
		case <-refreshed: // the whole refresh ran between A's lookup and A's store
		case <-time.After(300 * time.Millisecond): // the refresh waits for A (repaired code)
		}
	}
	f.resCache = rc

	newReq := func() *internal.Request {
		m := new(dns.Msg)
		m.SetQuestion(host+".", dns.TypeA)
		return &internal.Request{DNS: m, Messages: msgs, Host: host, QType: dns.TypeA, QClass: dns.ClassINET}
	}
	ctx := context.Background()
	if r, fErr := f.FilterRequest(ctx, newReq()); fErr != nil || r == nil {
		t.Fatalf("request A: want a verdict from the old list, got %v, %v", r, fErr)
	}
	<-refreshed
	r, fErr := f.FilterRequest(ctx, newReq())
	if fErr != nil {
		t.Fatal(fErr)
	}
	if r != nil {
		t.Errorf("after the refresh completed, %s is still answered from the verdict computed with the old list: %v", host, r)
	}
}

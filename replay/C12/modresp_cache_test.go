package hashprefix

// Replay oracle for C12/C02 (govc): the result cache of a hash-prefix filter
// is invisible, whichever profile filled it - a blocked answer is the one the
// requester's own settings (blocking mode, filtered-response TTL) produce.
//
// History: the filter is configured with a replacement IP address.  Client A
// (profile with filtered-response TTL 10 s, blocking mode NXDOMAIN) asks for a
// listed host; its answers are cached.  Client B (TTL 3600 s, null-IP mode)
// asks the same questions.  B must get what it would get from a fresh filter.

import (
	"context"
	"log/slog"
	"net/url"
	"os"
	"path/filepath"
	"testing"
	"time"

	"github.com/AdguardTeam/AdGuardDNS/internal/agdcache"
	"github.com/AdguardTeam/AdGuardDNS/internal/dnsmsg"
	"github.com/AdguardTeam/AdGuardDNS/internal/filter/internal"
	"github.com/miekg/dns"
)

func TestReplayCachedBlockedAnswerIsTheRequestersOwn(t *testing.T) {
	const host = "bad.example"
	cloner := dnsmsg.NewCloner(dnsmsg.EmptyClonerStat{})
	newMsgs := func(ttl time.Duration, mode dnsmsg.BlockingMode) *dnsmsg.Constructor {
		c, err := dnsmsg.NewConstructor(&dnsmsg.ConstructorConfig{
			Cloner:              cloner,
			BlockingMode:        mode,
			StructuredErrors:    &dnsmsg.StructuredDNSErrorsConfig{Enabled: false},
			FilteredResponseTTL: ttl,
		})
		if err != nil {
			t.Fatal(err)
		}

		return c
	}
	msgsA := newMsgs(10*time.Second, &dnsmsg.BlockingModeNXDOMAIN{})
	msgsB := newMsgs(3600*time.Second, &dnsmsg.BlockingModeNullIP{})

	newFilter := func() *Filter {
		hashes, err := NewStorage(host + "\n")
		if err != nil {
			t.Fatal(err)
		}
		listPath := filepath.Join(t.TempDir(), "hashes.txt")
		if wErr := os.WriteFile(listPath, []byte(host+"\n"), 0o600); wErr != nil {
			t.Fatal(wErr)
		}
		f, err := NewFilter(&FilterConfig{
			Logger:          slog.Default(),
			Cloner:          cloner,
			CacheManager:    agdcache.EmptyManager{},
			Hashes:          hashes,
			URL:             &url.URL{Scheme: "file", Path: listPath},
			Metrics:         internal.EmptyMetrics{},
			ID:              internal.IDSafeBrowsing,
			CachePath:       listPath,
			ReplacementHost: "192.0.2.1",
			Staleness:       time.Hour,
			CacheTTL:        time.Hour,
			RefreshTimeout:  time.Second,
			CacheCount:      100,
			MaxSize:         1 << 20,
		})
		if err != nil {
			t.Fatal(err)
		}

		return f
	}

	ask := func(f *Filter, msgs *dnsmsg.Constructor, qt uint16) *dns.Msg {
		m := new(dns.Msg)
		m.SetQuestion(host+".", qt)
		r, err := f.FilterRequest(context.Background(), &internal.Request{
			DNS: m, Messages: msgs, Host: host, QType: qt, QClass: dns.ClassINET,
		})
		if err != nil {
			t.Fatal(err)
		}
		mr, ok := r.(*internal.ResultModifiedResponse)
		if !ok {
			t.Fatalf("want a rewritten response, got %T", r)
		}

		return mr.Msg
	}

	warm, fresh := newFilter(), newFilter()
	for _, qt := range []uint16{dns.TypeA, dns.TypeHTTPS} {
		_ = ask(warm, msgsA, qt) // client A fills the cache
		got, want := ask(warm, msgsB, qt), ask(fresh, msgsB, qt)
		if got.Rcode != want.Rcode {
			t.Errorf("%s: client B is answered with rcode %d, its own blocking mode gives %d", dns.TypeToString[qt], got.Rcode, want.Rcode)
		}
		if len(got.Answer) != len(want.Answer) {
			t.Errorf("%s: client B gets %d answers, alone it gets %d", dns.TypeToString[qt], len(got.Answer), len(want.Answer))
		} else if len(got.Answer) > 0 && got.Answer[0].Header().Ttl != want.Answer[0].Header().Ttl {
			t.Errorf("%s: client B's answer has TTL %d (client A's profile), its own profile gives %d", dns.TypeToString[qt], got.Answer[0].Header().Ttl, want.Answer[0].Header().Ttl)
		}
	}
}

package hashprefix

// Replay oracle for C12 (govc): the result cache of a hash-prefix filter is
// invisible - a request that is rewritten to the replacement host gets the
// same rewritten request whether or not somebody else filled the cache before.
//
// History: client A (DO bit set, checking disabled, a cookie in its OPT
// record) asks for a listed host; the filter rewrites A's request and caches
// the verdict.  Client B asks for the same host with a plain request.  B's
// rewritten request must be B's own request with the replacement name - not a
// copy of A's.

import (
	"context"
	"log/slog"
	"net/url"
	"os"
	"path/filepath"
	"testing"
	"time"

	"github.com/AdguardTeam/AdGuardDNS/internal/agdcache"
	"github.com/AdguardTeam/AdGuardDNS/internal/dnsmsg"
	"github.com/AdguardTeam/AdGuardDNS/internal/filter/internal"
	"github.com/miekg/dns"
)

func TestReplayCachedRewriteIsTheRequestersOwn(t *testing.T) {
	const host = "bad.example"
	hashes, err := NewStorage(host + "\n")
	if err != nil {
		t.Fatal(err)
	}
	cloner := dnsmsg.NewCloner(dnsmsg.EmptyClonerStat{})
	msgs, err := dnsmsg.NewConstructor(&dnsmsg.ConstructorConfig{
		Cloner:              cloner,
		BlockingMode:        &dnsmsg.BlockingModeNullIP{},
		StructuredErrors:    &dnsmsg.StructuredDNSErrorsConfig{Enabled: false},
		FilteredResponseTTL: 10 * time.Second,
	})
	if err != nil {
		t.Fatal(err)
	}
	listPath := filepath.Join(t.TempDir(), "hashes.txt")
	if wErr := os.WriteFile(listPath, []byte(host+"\n"), 0o600); wErr != nil {
		t.Fatal(wErr)
	}
	f, err := NewFilter(&FilterConfig{
		Logger:          slog.Default(),
		Cloner:          cloner,
		CacheManager:    agdcache.EmptyManager{},
		Hashes:          hashes,
		URL:             &url.URL{Scheme: "file", Path: listPath},
		Metrics:         internal.EmptyMetrics{},
		ID:              internal.IDAdultBlocking,
		CachePath:       listPath,
		ReplacementHost: "repl.example",
		Staleness:       time.Hour,
		CacheTTL:        time.Hour,
		RefreshTimeout:  time.Second,
		CacheCount:      100,
		MaxSize:         1 << 20,
	})
	if err != nil {
		t.Fatal(err)
	}

	ask := func(m *dns.Msg) *dns.Msg {
		r, fErr := f.FilterRequest(context.Background(), &internal.Request{
			DNS: m, Messages: msgs, Host: host, QType: dns.TypeA, QClass: dns.ClassINET,
		})
		if fErr != nil {
			t.Fatal(fErr)
		}
		mr, ok := r.(*internal.ResultModifiedRequest)
		if !ok {
			t.Fatalf("want a rewritten request, got %T", r)
		}

		return mr.Msg
	}

	reqA := new(dns.Msg)
	reqA.SetQuestion(host+".", dns.TypeA)
	reqA.CheckingDisabled = true
	reqA.SetEdns0(4096, true)
	reqA.IsEdns0().Option = append(reqA.IsEdns0().Option, &dns.EDNS0_COOKIE{Code: dns.EDNS0COOKIE, Cookie: "a1a2a3a4a5a6a7a8"})
	_ = ask(reqA)

	reqB := new(dns.Msg)
	reqB.SetQuestion(host+".", dns.TypeA)
	gotB := ask(reqB)

	if gotB.Question[0].Name != "repl.example." {
		t.Fatalf("not rewritten: %q", gotB.Question[0].Name)
	}
	if gotB.CheckingDisabled != reqB.CheckingDisabled || gotB.RecursionDesired != reqB.RecursionDesired {
		t.Errorf("client B's rewritten request has client A's header bits: cd=%v rd=%v", gotB.CheckingDisabled, gotB.RecursionDesired)
	}
	if opt := gotB.IsEdns0(); opt != nil {
		t.Errorf("client B sent no OPT record, its rewritten request has client A's: do=%v udp=%d options=%v", opt.Do(), opt.UDPSize(), opt.Option)
	}
}

package connlimiter

// Replay oracle for C18 (govc): Accept on a closed listener must not keep a
// counter slot.  Property-level statement: the number of accepted-and-open
// connections plus pending accepts never exceeds what is really outstanding;
// after failed Accepts on a closed listener nothing is outstanding, so another
// listener sharing the limiter must still be able to accept `stop` connections.

import (
	"log/slog"
	"net"
	"testing"
	"time"

	"github.com/AdguardTeam/AdGuardDNS/internal/dnsserver"
)

type replayListener struct {
	conns chan net.Conn
}

func (l *replayListener) Accept() (net.Conn, error) { return <-l.conns, nil }
func (l *replayListener) Close() error              { return nil }
func (l *replayListener) Addr() net.Addr            { return &net.TCPAddr{} }

func TestReplayClosedAcceptLeak(t *testing.T) {
	const stop = 2
	lim, err := New(&Config{Logger: slog.Default(), Stop: stop, Resume: 1})
	if err != nil {
		t.Fatal(err)
	}
	info := &dnsserver.ServerInfo{Name: "replay", Addr: "127.0.0.1:0", Proto: dnsserver.ProtoDoT}
	closed := lim.Limit(&replayListener{conns: make(chan net.Conn, 8)}, info)
	if err = closed.Close(); err != nil {
		t.Fatal(err)
	}
	for i := 0; i < stop; i++ {
		if _, err = closed.Accept(); err == nil {
			t.Fatal("accept on a closed listener succeeded")
		}
	}
	if got := lim.counter.current; got != 0 {
		t.Errorf("counter.current = %d after %d failed accepts on a closed listener, want 0 (slots leaked)", got, stop)
	}
	// A second listener sharing the limiter must still accept.
	inner := &replayListener{conns: make(chan net.Conn, 8)}
	c1, c2 := net.Pipe()
	defer c1.Close()
	defer c2.Close()
	inner.conns <- c1
	other := lim.Limit(inner, info)
	done := make(chan error, 1)
	go func() { _, aerr := other.Accept(); done <- aerr }()
	select {
	case aerr := <-done:
		if aerr != nil {
			t.Errorf("accept on the open listener: %v", aerr)
		}
	case <-time.After(2 * time.Second):
		t.Errorf("the open listener sharing the limiter is wedged: Accept did not return")
	}
}

package ecscache

// Replay oracle for C05 (govc): after setECS every client-subnet option of the
// message's OPT record carries the given subnet - a query with two such
// options must not keep the second, client-supplied one.

import (
	"net"
	"net/netip"
	"testing"

	"github.com/AdguardTeam/AdGuardDNS/internal/dnsmsg"
	"github.com/AdguardTeam/golibs/netutil"
	"github.com/miekg/dns"
)

func TestReplaySetECSAll(t *testing.T) {
	for _, isResp := range []bool{false, true} {
		for n := 1; n <= 3; n++ {
			msg := new(dns.Msg)
			msg.SetQuestion("example.org.", dns.TypeA)
			msg.SetEdns0(4096, false)
			opt := msg.IsEdns0()
			for k := 0; k < n; k++ {
				opt.Option = append(opt.Option, &dns.EDNS0_SUBNET{
					Code:          dns.EDNS0SUBNET,
					Family:        1,
					SourceNetmask: 32,
					Address:       net.IP{203, 0, 113, byte(7 + k)},
				})
			}
			coarse := netip.MustParsePrefix("198.51.100.0/24")
			err := setECS(msg, &dnsmsg.ECS{Subnet: coarse}, netutil.AddrFamilyIPv4, isResp)
			if err != nil {
				t.Fatalf("setECS: %v", err)
			}
			wantScope := uint8(0)
			if isResp {
				wantScope = 24
			}
			seen := 0
			for i, o := range msg.IsEdns0().Option {
				sn, ok := o.(*dns.EDNS0_SUBNET)
				if !ok {
					continue
				}
				seen++
				if !sn.Address.Equal(net.IP{198, 51, 100, 0}) || sn.SourceNetmask != 24 || sn.SourceScope != wantScope {
					t.Errorf("isResp=%v options=%d: client-subnet option %d is %s/%d scope %d after setECS, want 198.51.100.0/24 scope %d",
						isResp, n, i, sn.Address, sn.SourceNetmask, sn.SourceScope, wantScope)
				}
			}
			if seen == 0 {
				t.Errorf("isResp=%v options=%d: no client-subnet option after setECS", isResp, n)
			}
		}
	}
}

package mainmw

// Replay oracle for C02 (govc): a blocked query is answered in the shape of
// the requester's blocking mode and never with the records obtained from
// upstream - also when the profile's blocking mode cannot produce an answer
// for this question (e.g. a custom-IP mode whose "IPv4" address is not IPv4,
// which the backend decoder lets through).

import (
	"context"
	"log/slog"
	"net/netip"
	"testing"
	"time"

	"github.com/AdguardTeam/AdGuardDNS/internal/agd"
	"github.com/AdguardTeam/AdGuardDNS/internal/agdtest"
	"github.com/AdguardTeam/AdGuardDNS/internal/dnsmsg"
	"github.com/AdguardTeam/AdGuardDNS/internal/filter"
	"github.com/miekg/dns"
)

func TestReplayBlockedNeverUpstream(t *testing.T) {
	cloner := dnsmsg.NewCloner(dnsmsg.EmptyClonerStat{})
	msgs, err := dnsmsg.NewConstructor(&dnsmsg.ConstructorConfig{
		Cloner:              cloner,
		BlockingMode:        &dnsmsg.BlockingModeCustomIP{IPv4: []netip.Addr{netip.MustParseAddr("2001:db8::1")}},
		StructuredErrors:    &dnsmsg.StructuredDNSErrorsConfig{Enabled: false},
		FilteredResponseTTL: 10 * time.Second,
	})
	if err != nil {
		t.Fatal(err)
	}
	mw := &Middleware{logger: slog.Default(), errColl: agdtest.NewErrorCollector()}
	mw.errColl.(*agdtest.ErrorCollector).OnCollect = func(context.Context, error) {}
	ri := &agd.RequestInfo{Messages: msgs}
	for _, viaResp := range []bool{false, true} {
		req := new(dns.Msg)
		req.SetQuestion("blocked.example.", dns.TypeA)
		upstream := new(dns.Msg)
		upstream.SetReply(req)
		upstream.Answer = append(upstream.Answer, &dns.A{
			Hdr: dns.RR_Header{Name: "blocked.example.", Rrtype: dns.TypeA, Class: dns.ClassINET, Ttl: 3600},
			A:   []byte{3, 4, 5, 6},
		})
		fctx := &filteringContext{originalRequest: req, originalResponse: upstream}
		blocked := &filter.ResultBlocked{List: "rule_list_1", Rule: "||blocked.example^"}
		if viaResp {
			fctx.responseResult = blocked
		} else {
			fctx.requestResult = blocked
		}
		mw.setFilteredResponse(context.Background(), fctx, ri)
		if fctx.filteredResponse == upstream {
			t.Errorf("blocked (by response verdict: %v) query is answered with the upstream response: %v", viaResp, fctx.filteredResponse.Answer)
		}
	}
}

package forward

// Replay oracle for C06 (govc), upstream replies: the reply must be decoded
// from the bytes read for it.  The buffer passed to readMsg holds older bytes
// (it is pooled and was used to pack the request); the upstream sends a short
// UDP reply whose header declares one answer that it does not carry.

import (
	"net"
	"testing"

	"github.com/miekg/dns"
)

type replayConn struct {
	net.Conn
	data []byte
}

func (c *replayConn) Read(p []byte) (n int, err error) {
	n = copy(p, c.data)
	c.data = c.data[n:]
	return n, nil
}

func TestReplayUpstreamStaleBytes(t *testing.T) {
	// reply: ID 0x4242, QR, QDCOUNT=1, ANCOUNT=1, question ". A IN", no answer bytes
	reply := []byte{0x42, 0x42, 0x80, 0x00, 0, 1, 0, 1, 0, 0, 0, 0, 0x00, 0, 1, 0, 1}
	if len(reply) != minDNSMessageSize {
		t.Fatalf("reply is %d bytes", len(reply))
	}
	// stale content of the pooled buffer after the first 17 bytes: ". A IN ttl=60 6.6.6.6"
	buf := make([]byte, udpBufSize)
	copy(buf[len(reply):], []byte{0x00, 0, 1, 0, 1, 0, 0, 0, 60, 0, 4, 6, 6, 6, 6})

	fresh := new(dns.Msg)
	freshErr := fresh.Unpack(reply)

	u := &UpstreamPlain{}
	got, gotErr := u.readMsg(NetworkUDP, &replayConn{data: reply}, buf)
	if (freshErr == nil) != (gotErr == nil) {
		t.Errorf("fresh decoder: err=%v; decoder over the reused buffer: err=%v", freshErr, gotErr)
	}
	if gotErr == nil && len(got.Answer) != len(fresh.Answer) {
		t.Errorf("decoded %d answer(s) %v that the reply does not carry (fresh decoder: %d)", len(got.Answer), got.Answer, len(fresh.Answer))
	}
}

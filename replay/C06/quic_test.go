package dnsserver

// Replay oracle for C06 (govc), DoQ receive path: the message decoded from a
// stream must be what a freshly started server decodes from the same bytes.
// The pooled receive buffer still holds an earlier client's query; the next
// message is 14 bytes long: a correct length prefix and a header that declares
// one question but carries none.

import (
	"context"
	"io"
	"testing"
	"time"

	"github.com/AdguardTeam/golibs/syncutil"
	"github.com/miekg/dns"
	"github.com/quic-go/quic-go"
)

type replayQUICStream struct {
	quic.Stream
	data []byte
}

func (s *replayQUICStream) Read(p []byte) (n int, err error) {
	if len(s.data) == 0 {
		return 0, io.EOF
	}
	n = copy(p, s.data)
	s.data = s.data[n:]
	return n, nil
}

func (s *replayQUICStream) SetReadDeadline(time.Time) error { return nil }

func TestReplayQUICStaleBytes(t *testing.T) {
	// what an earlier client sent
	victim := new(dns.Msg)
	victim.SetQuestion("victim-client.example.", dns.TypeA)
	victimWire, err := victim.Pack()
	if err != nil {
		t.Fatal(err)
	}
	stale := make([]byte, quicBytePoolSize)
	stale[0], stale[1] = byte(len(victimWire)>>8), byte(len(victimWire))
	copy(stale[2:], victimWire)

	s := &ServerQUIC{ServerBase: &ServerBase{metrics: &EmptyMetricsListener{}}}
	s.reqPool = syncutil.NewPool(func() *[]byte { b := stale; return &b })

	// the next message: prefix 12, header with ID 0x4242 and QDCOUNT=1, no question bytes
	hdr := []byte{0x42, 0x42, 0x01, 0x00, 0x00, 0x01, 0, 0, 0, 0, 0, 0}
	wire := append([]byte{0, 12}, hdr...)

	fresh := new(dns.Msg)
	freshErr := fresh.Unpack(hdr)

	got, gotErr := s.readQUICMsg(context.Background(), &replayQUICStream{data: wire})
	if (freshErr == nil) != (gotErr == nil) {
		t.Errorf("fresh decoder: err=%v; server with a reused buffer: err=%v", freshErr, gotErr)
	}
	if gotErr == nil && len(got.Question) > 0 {
		t.Errorf("decoded question %q comes from another client's earlier message", got.Question[0].Name)
	}
}

package dnsserver

// Replay oracle for C08 (govc): a query that carries an OPT record gets one
// back with the client's UDP size, version 0 and (when the client set DO) the
// DO bit - also when the handler's response has no OPT record of its own.

import (
	"encoding/json"
	"os"
	"strconv"
	"testing"

	"github.com/miekg/dns"
)

func replayModelInt(name string, def int) int {
	m := map[string]string{}
	_ = json.Unmarshal([]byte(os.Getenv("GOVC_MODEL")), &m)
	if v, ok := m[name]; ok {
		if n, err := strconv.Atoi(v); err == nil {
			return n
		}
	}
	return def
}

func TestReplayOPTEcho(t *testing.T) {
	udpSize := uint16(replayModelInt("UDPSize_result!4", 4096))
	if udpSize == 0 {
		udpSize = 4096
	}
	maxSize := uint16(replayModelInt("p_maxMsgSize", 1232))
	for _, withRespOPT := range []bool{false, true} {
		for _, do := range []bool{false, true} {
			req := new(dns.Msg)
			req.SetQuestion("example.org.", dns.TypeA)
			req.SetEdns0(udpSize, do)
			resp := new(dns.Msg)
			resp.SetReply(req)
			if withRespOPT {
				resp.SetEdns0(512, false)
			}
			normalize(NetworkUDP, ProtoDNS, req, resp, maxSize)
			opt := resp.IsEdns0()
			if opt == nil {
				t.Errorf("respOPT=%v do=%v: no OPT record in the response to a query with OPT", withRespOPT, do)
				continue
			}
			if opt.UDPSize() != udpSize {
				t.Errorf("respOPT=%v do=%v: response OPT UDP size = %d, want the client's %d", withRespOPT, do, opt.UDPSize(), udpSize)
			}
			if opt.Version() != 0 {
				t.Errorf("respOPT=%v do=%v: response OPT version = %d, want 0", withRespOPT, do, opt.Version())
			}
			if do && !opt.Do() {
				t.Errorf("respOPT=%v do=%v: DO bit not mirrored", withRespOPT, do)
			}
		}
	}
}

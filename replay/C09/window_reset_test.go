package ratelimit

// Replay oracle for C09 (govc): no late pass - a query is dropped when its
// subnet has already had the configured number of events within the interval.
//
// History: the limit is 2 events per second.  A subnet sends 2 events (both
// answered), so that any further event within the same second must be dropped
// - and is, as long as the subnet's counter lives.  The counter is kept in a
// cache entry that expires a fixed time (the backoff period) after it was
// CREATED, however recently it was used.  Right after that moment the same
// subnet sends again, still within one second of its two events: the property
// says "dropped".

import (
	"context"
	"net/netip"
	"testing"
	"time"

	"github.com/miekg/dns"
)

func TestReplayWindowForgottenAtEntryExpiry(t *testing.T) {
	const period = 150 * time.Millisecond
	l := NewBackoff(&BackoffConfig{
		Allowlist:            NewDynamicAllowlist(nil, nil),
		Period:               period,
		Duration:             time.Minute,
		Count:                1000,
		ResponseSizeEstimate: 1000,
		IPv4Count:            2,
		IPv4Interval:         time.Second,
		IPv4SubnetKeyLen:     24,
		IPv6Count:            2,
		IPv6Interval:         time.Second,
		IPv6SubnetKeyLen:     48,
	})
	req := new(dns.Msg)
	req.SetQuestion("example.org.", dns.TypeA)
	ip := netip.MustParseAddr("192.0.2.7")
	ctx := context.Background()

	start := time.Now()
	for i := 0; i < 2; i++ {
		drop, _, err := l.IsRateLimited(ctx, req, ip)
		if err != nil || drop {
			t.Fatalf("event %d: drop=%v err=%v; the first two events are within the limit", i, drop, err)
		}
	}
	if drop, _, _ := l.IsRateLimited(ctx, req, ip); !drop {
		t.Fatalf("third event within the second must be dropped")
	}

	time.Sleep(period + 50*time.Millisecond)
	drop, _, _ := l.IsRateLimited(ctx, req, ip)
	if el := time.Since(start); el >= time.Second {
		t.Skipf("machine too slow: %v elapsed, the events are no longer within one interval", el)
	}
	if !drop {
		t.Fatalf("late pass: the subnet had 3 events within the last second (limit 2) and its next event was answered - the counter was forgotten when its cache entry expired")
	}
}

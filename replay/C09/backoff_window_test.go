package ratelimit

// Replay oracle for C09 (govc): a subnet is in backoff when it has exceeded
// the limit often enough WITHIN THE BACKOFF PERIOD.
//
// Configuration: limit 1 event per 40 ms, backoff count 3, backoff period
// 100 ms, backoff duration 2 s.  History: the subnet exceeds the limit once at
// about 0 ms, once at about 300 ms and once at about 600 ms - never more than
// once within any 100 ms period.  It must not be in backoff afterwards.  (The
// hits are counted in a cache entry that lives for the backoff DURATION from
// the first hit, so all three are added up.)

import (
	"context"
	"net/netip"
	"testing"
	"time"

	"github.com/miekg/dns"
)

func TestReplayBackoffCountsOverTheDurationNotThePeriod(t *testing.T) {
	l := NewBackoff(&BackoffConfig{
		Allowlist:            NewDynamicAllowlist(nil, nil),
		Period:               100 * time.Millisecond,
		Duration:             2 * time.Second,
		Count:                3,
		ResponseSizeEstimate: 1000,
		IPv4Count:            1,
		IPv4Interval:         40 * time.Millisecond,
		IPv4SubnetKeyLen:     24,
		IPv6Count:            1,
		IPv6Interval:         40 * time.Millisecond,
		IPv6SubnetKeyLen:     48,
	})
	req := new(dns.Msg)
	req.SetQuestion("example.org.", dns.TypeA)
	ip := netip.MustParseAddr("192.0.2.7")
	ctx := context.Background()

	start := time.Now()
	for round := 0; round < 3; round++ {
		// two events at once: the second one is over the limit (one hit)
		_, _, _ = l.IsRateLimited(ctx, req, ip)
		drop, _, _ := l.IsRateLimited(ctx, req, ip)
		if !drop {
			t.Fatalf("round %d: the second event within the interval must be dropped", round)
		}
		time.Sleep(300 * time.Millisecond)
	}
	if el := time.Since(start); el >= 2*time.Second {
		t.Skipf("machine too slow: %v", el)
	}
	// 300 ms after the last hit: no event within the interval, and no 100 ms
	// period with three hits - the subnet must be served.
	if drop, _, _ := l.IsRateLimited(ctx, req, ip); drop {
		t.Fatalf("in backoff after three hits that are 300 ms apart although the backoff period is 100 ms: hits are counted over the backoff duration")
	}
}

package dnsmsg

// Replay oracle for C07 (govc): an OPT record taken out of the pool carries
// nothing of the message it was released from.
//
// History: an answer whose OPT record has an extended RCODE, an EDNS version
// and Z flags set (as an upstream may send them) is cloned for client A and
// released.  Then a blocked response with an Extended DNS Error is built for
// client B, whose query has a plain OPT record.  B's response must be the one
// it would get on a fresh server: extended RCODE 0, version 0, no Z flags.

import (
	"testing"

	"github.com/miekg/dns"
)

func TestReplayRecycledOPTHeader(t *testing.T) {
	for round := 0; round < 50; round++ {
		c := NewCloner(EmptyClonerStat{})

		up := new(dns.Msg)
		up.SetQuestion("a.example.", dns.TypeA)
		up.Response = true
		up.SetEdns0(4096, true)
		opt := up.IsEdns0()
		opt.SetVersion(3)
		opt.SetExtendedRcode(23) // BADCOOKIE: upper bits go into the OPT TTL
		opt.SetZ(0x1234)
		c.Dispose(c.Clone(up))

		cons, err := NewConstructor(&ConstructorConfig{
			Cloner:              c,
			BlockingMode:        &BlockingModeNullIP{},
			StructuredErrors:    &StructuredDNSErrorsConfig{Enabled: false},
			FilteredResponseTTL: 10_000_000_000,
			EDEEnabled:          true,
		})
		if err != nil {
			t.Fatal(err)
		}

		req := new(dns.Msg)
		req.SetQuestion("blocked.example.", dns.TypeA)
		req.SetEdns0(1232, false)
		resp, err := cons.NewBlockedResp(req)
		if err != nil {
			t.Fatal(err)
		}
		ro := resp.IsEdns0()
		if ro == nil {
			t.Fatal("no OPT in the blocked response")
		}
		if ro.Version() != 0 || ro.ExtendedRcode() != 0 || ro.Z() != 0 || ro.Do() {
			t.Fatalf("round %d: client B's OPT carries client A's header bits: version %d, extended rcode %d, z %#x, do %v (ttl field %#x)",
				round, ro.Version(), ro.ExtendedRcode(), ro.Z(), ro.Do(), ro.Hdr.Ttl)
		}
	}
}

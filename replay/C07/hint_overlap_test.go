package dnsmsg

// Replay oracle for C07 (govc): releasing one message never lets two later
// clones share memory.
//
// History: an upstream HTTPS answer with five IPv4 hints, exactly as the DNS
// library unpacks it from the wire (all hints are 4-byte windows into one
// buffer), is written to a UDP client and released (ServerBase.dispose ->
// Cloner.Dispose).  Then two messages with an IPv6 hint each are cloned and
// both clones stay in use.  Each clone must keep the hint of its own source.

import (
	"net"
	"testing"

	"github.com/miekg/dns"
)

func replayHTTPS(t *testing.T, kv dns.SVCBKeyValue) (m *dns.Msg) {
	t.Helper()
	m = new(dns.Msg)
	m.SetQuestion("svc.example.", dns.TypeHTTPS)
	m.Response = true
	m.Answer = []dns.RR{&dns.HTTPS{SVCB: dns.SVCB{
		Hdr:      dns.RR_Header{Name: "svc.example.", Rrtype: dns.TypeHTTPS, Class: dns.ClassINET, Ttl: 60},
		Priority: 1,
		Target:   ".",
		Value:    []dns.SVCBKeyValue{kv},
	}}}

	return m
}

func TestReplayHintOverlap(t *testing.T) {
	for round := 0; round < 20; round++ {
		c := NewCloner(EmptyClonerStat{})

		// the upstream answer, through the wire
		up := replayHTTPS(t, &dns.SVCBIPv4Hint{Hint: []net.IP{
			net.IP{192, 0, 2, 1}.To4(), net.IP{192, 0, 2, 2}.To4(), net.IP{192, 0, 2, 3}.To4(),
			net.IP{192, 0, 2, 4}.To4(), net.IP{192, 0, 2, 5}.To4(),
		}})
		wire, err := up.Pack()
		if err != nil {
			t.Fatal(err)
		}
		resp := new(dns.Msg)
		if err = resp.Unpack(wire); err != nil {
			t.Fatal(err)
		}
		c.Dispose(resp)

		ipA := net.ParseIP("2001:db8::a")
		ipB := net.ParseIP("2001:db8::b")
		srcA := replayHTTPS(t, &dns.SVCBIPv6Hint{Hint: []net.IP{ipA}})
		srcB := replayHTTPS(t, &dns.SVCBIPv6Hint{Hint: []net.IP{ipB}})

		cloneA := c.Clone(srcA)
		cloneB := c.Clone(srcB)
		cloneC := c.Clone(srcB)

		hint := func(m *dns.Msg) net.IP {
			return m.Answer[0].(*dns.HTTPS).Value[0].(*dns.SVCBIPv6Hint).Hint[0]
		}
		if got := hint(cloneA); !got.Equal(ipA) {
			t.Fatalf("round %d: the first clone, still in use, was overwritten by a later clone: hint %s, want %s", round, got, ipA)
		}
		if got := hint(cloneB); !got.Equal(ipB) {
			t.Fatalf("round %d: the second clone, still in use, was overwritten by a later clone: hint %s, want %s", round, got, ipB)
		}
		if got := hint(cloneC); !got.Equal(ipB) {
			t.Fatalf("round %d: the third clone is wrong: hint %s, want %s", round, got, ipB)
		}
	}
}

package cmd

// Replay oracle for C20 (govc): values documented as positive must be
// rejected when zero or negative, for every numeric type the configuration
// uses.  The solver's value of v is read from GOVC_MODEL.

import (
	"encoding/json"
	"os"
	"strconv"
	"testing"

	"github.com/c2h5oh/datasize"
)

func replayV(def int64) int64 {
	m := map[string]string{}
	_ = json.Unmarshal([]byte(os.Getenv("GOVC_MODEL")), &m)
	if s, ok := m["p_v"]; ok {
		if n, err := strconv.ParseInt(s, 10, 64); err == nil {
			return n
		}
	}
	return def
}

func TestReplayValidatePositive(t *testing.T) {
	v := replayV(0)
	if v > 0 {
		v = 0
	}
	if err := validatePositive("count", uint(0)); err == nil {
		t.Errorf("validatePositive(uint 0) accepted a non-positive value")
	}
	if err := validatePositive("subnet_key_len", int(v)); err == nil {
		t.Errorf("validatePositive(int %d) accepted a non-positive value", v)
	}
	if err := validatePositive("response_size_estimate", datasize.ByteSize(0)); err == nil {
		t.Errorf("validatePositive(ByteSize 0) accepted a non-positive value")
	}
}

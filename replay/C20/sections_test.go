package cmd

// Replay oracle for C20 (govc): a configuration section that passes
// validation must produce objects with which a query can be handled without
// a panic.

import (
	"context"
	"net/netip"
	"testing"
	"time"

	"github.com/AdguardTeam/AdGuardDNS/internal/agdcache"
	"github.com/AdguardTeam/AdGuardDNS/internal/dnsserver/ratelimit"
	"github.com/AdguardTeam/golibs/timeutil"
	"github.com/miekg/dns"
)

func replayRateLimitConf(v4len, v6len int) *rateLimitConfig {
	d := timeutil.Duration{Duration: time.Second}
	return &rateLimitConfig{
		Allowlist:            &allowListConfig{Type: rlAllowlistTypeBackend, RefreshIvl: d},
		ConnectionLimit:      &connLimitConfig{},
		IPv4:                 &rateLimitOptions{Count: 10, Interval: d, SubnetKeyLen: v4len},
		IPv6:                 &rateLimitOptions{Count: 10, Interval: d, SubnetKeyLen: v6len},
		QUIC:                 &ratelimitQUICConfig{MaxStreamsPerPeer: 1},
		TCP:                  &ratelimitTCPConfig{MaxPipelineCount: 1},
		ResponseSizeEstimate: 1024,
		BackoffCount:         10,
		BackoffDuration:      d,
		BackoffPeriod:        d,
	}
}

func TestReplaySubnetKeyLen(t *testing.T) {
	for _, lens := range [][2]int{{33, 48}, {24, 129}} {
		c := replayRateLimitConf(lens[0], lens[1])
		if err := c.validate(); err != nil {
			continue // rejected with a message: fine
		}
		func() {
			defer func() {
				if v := recover(); v != nil {
					t.Errorf("subnet_key_len %v passed validation, but handling a query panics: %v", lens, v)
				}
			}()
			l := ratelimit.NewBackoff(c.toInternal(ratelimit.NewDynamicAllowlist(nil, nil)))
			req := new(dns.Msg)
			req.SetQuestion("example.org.", dns.TypeA)
			_, _, _ = l.IsRateLimited(context.Background(), req, netip.MustParseAddr("192.0.2.1"))
			_, _, _ = l.IsRateLimited(context.Background(), req, netip.MustParseAddr("2001:db8::1"))
		}()
	}
}

func TestReplayECSCacheSize(t *testing.T) {
	c := &cacheConfig{
		TTLOverride: &ttlOverride{Min: timeutil.Duration{Duration: time.Second}},
		Type:        cacheTypeECS,
		Size:        1,
		ECSSize:     0,
	}
	if err := c.validate(); err != nil {
		return // rejected with a message: fine
	}
	conf := c.toInternal()
	defer func() {
		if v := recover(); v != nil {
			t.Errorf("cache {type: ecs, size: 1, ecs_size: 0} passed validation, but building the ECS cache panics: %v", v)
		}
	}()
	_ = agdcache.NewLRU[uint64, int](&agdcache.LRUConfig{Count: conf.NoECSCount})
	_ = agdcache.NewLRU[uint64, int](&agdcache.LRUConfig{Count: conf.ECSCount})
}

func TestReplayHugeCount(t *testing.T) {
	c := replayRateLimitConf(24, 48)
	c.IPv4.Count = 1 << 63
	if err := c.validate(); err != nil {
		return
	}
	defer func() {
		if v := recover(); v != nil {
			t.Errorf("ipv4.count = 2^63 passed validation, but handling a query panics: %v", v)
		}
	}()
	l := ratelimit.NewBackoff(c.toInternal(ratelimit.NewDynamicAllowlist(nil, nil)))
	req := new(dns.Msg)
	req.SetQuestion("example.org.", dns.TypeA)
	_, _, _ = l.IsRateLimited(context.Background(), req, netip.MustParseAddr("192.0.2.1"))
}

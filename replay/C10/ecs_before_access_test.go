package ratelimitmw_test

// Replay oracle for C10 (govc): a request that the access settings reject gets
// no response at all - also when it carries a malformed EDNS Client Subnet
// option (which, for a client that is let through, is answered with FORMERR).

import (
	"context"
	"net"
	"net/netip"
	"testing"

	"github.com/AdguardTeam/AdGuardDNS/internal/access"
	"github.com/AdguardTeam/AdGuardDNS/internal/agd"
	"github.com/AdguardTeam/AdGuardDNS/internal/agdtest"
	"github.com/AdguardTeam/AdGuardDNS/internal/dnsserver"
	"github.com/AdguardTeam/AdGuardDNS/internal/dnsserver/dnsservertest"
	"github.com/AdguardTeam/AdGuardDNS/internal/dnssvc/internal/ratelimitmw"
	"github.com/AdguardTeam/AdGuardDNS/internal/geoip"
	"github.com/AdguardTeam/golibs/logutil/slogutil"
	"github.com/miekg/dns"
)

func TestReplayNoResponseBeforeAccessDecision(t *testing.T) {
	blockedIP := netip.MustParseAddr("192.0.2.2")
	allowedIP := netip.MustParseAddr("192.0.2.1")

	accessMgr, err := access.NewGlobal(
		[]string{"blocked.example"},
		[]netip.Prefix{netip.PrefixFrom(blockedIP, 32)},
	)
	if err != nil {
		t.Fatal(err)
	}

	geoIP := agdtest.NewGeoIP()
	geoIP.OnData = func(_ string, _ netip.Addr) (l *geoip.Location, err error) { return nil, nil }

	mw := ratelimitmw.New(&ratelimitmw.Config{
		Logger:           slogutil.NewDiscardLogger(),
		Messages:         agdtest.NewConstructor(t),
		FilteringGroup:   &agd.FilteringGroup{},
		ServerGroup:      &agd.ServerGroup{},
		Server:           &agd.Server{Protocol: agd.ProtoDoT},
		StructuredErrors: agdtest.NewSDEConfig(true),
		AccessManager:    accessMgr,
		DeviceFinder: &agdtest.DeviceFinder{
			OnFind: func(_ context.Context, _ *dns.Msg, _, _ netip.AddrPort) (r agd.DeviceResult) { return nil },
		},
		ErrColl:    agdtest.NewErrorCollector(),
		GeoIP:      geoIP,
		Metrics:    ratelimitmw.EmptyMetrics{},
		Limiter:    agdtest.NewRateLimit(),
		Protocols:  []agd.Protocol{agd.ProtoDNS},
		EDEEnabled: true,
	})

	served := 0
	handler := dnsserver.HandlerFunc(
		func(ctx context.Context, rw dnsserver.ResponseWriter, req *dns.Msg) (err error) {
			served++

			return rw.WriteMsg(ctx, req, dnsservertest.NewResp(dns.RcodeSuccess, req))
		},
	)

	// A client-subnet option with an unknown address family: malformed.
	newReq := func(host string) (req *dns.Msg) {
		req = &dns.Msg{Question: []dns.Question{{Name: host, Qtype: dns.TypeA, Qclass: dns.ClassINET}}}
		req.SetEdns0(4096, false)
		opt := req.IsEdns0()
		opt.Option = append(opt.Option, &dns.EDNS0_SUBNET{
			Code:          dns.EDNS0SUBNET,
			Family:        7,
			SourceNetmask: 24,
			Address:       net.IP{203, 0, 113, 0},
		})

		return req
	}

	for _, tc := range []struct {
		name     string
		ip       netip.Addr
		host     string
		wantResp bool
	}{
		{name: "blocked_subnet_malformed_ecs", ip: blockedIP, host: "allowed.example", wantResp: false},
		{name: "blocked_name_malformed_ecs", ip: allowedIP, host: "blocked.example", wantResp: false},
		{name: "allowed_malformed_ecs_gets_formerr", ip: allowedIP, host: "allowed.example", wantResp: true},
	} {
		t.Run(tc.name, func(t *testing.T) {
			served = 0
			rw := dnsserver.NewNonWriterResponseWriter(nil, &net.TCPAddr{IP: tc.ip.AsSlice(), Port: 5357})
			_ = mw.Wrap(handler).ServeDNS(context.Background(), rw, newReq(tc.host))
			resp := rw.Msg()
			if served != 0 {
				t.Errorf("a request with a malformed subnet option reached the next handler")
			}
			if !tc.wantResp && resp != nil {
				t.Errorf("access-blocked request got a response (rcode %d); the property says it gets none", resp.Rcode)
			}
			if tc.wantResp && (resp == nil || resp.Rcode != dns.RcodeFormatError) {
				t.Errorf("a client that is let through must get FORMERR for a malformed option, got %v", resp)
			}
		})
	}
}

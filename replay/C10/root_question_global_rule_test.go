package ratelimitmw_test

// Replay oracle for C10 (govc): a request whose question matches a global
// blocked-name rule gets no response and is not served - for every question
// name, the root included.  The same rule text in a profile's access settings
// rejects the root question (access.blockedHostEngine matches "."), so the
// global rules must see the question's name too, not the empty string.

import (
	"context"
	"net"
	"net/netip"
	"testing"

	"github.com/AdguardTeam/AdGuardDNS/internal/access"
	"github.com/AdguardTeam/AdGuardDNS/internal/agd"
	"github.com/AdguardTeam/AdGuardDNS/internal/agdtest"
	"github.com/AdguardTeam/AdGuardDNS/internal/dnsserver"
	"github.com/AdguardTeam/AdGuardDNS/internal/dnsserver/dnsservertest"
	"github.com/AdguardTeam/AdGuardDNS/internal/dnssvc/internal/ratelimitmw"
	"github.com/AdguardTeam/AdGuardDNS/internal/geoip"
	"github.com/AdguardTeam/golibs/logutil/slogutil"
	"github.com/miekg/dns"
)

func TestReplayRootQuestionMatchesGlobalRule(t *testing.T) {
	const rootRule = `|.^$dnstype=NS`

	clientIP := netip.MustParseAddr("192.0.2.1")

	// The rule does match the root question: a profile with the same rule
	// rejects it.
	prof := access.NewDefaultProfile(&access.ProfileConfig{BlocklistDomainRules: []string{rootRule}})
	rootNS := &dns.Msg{Question: []dns.Question{{Name: ".", Qtype: dns.TypeNS, Qclass: dns.ClassINET}}}
	if !prof.IsBlocked(rootNS, netip.AddrPortFrom(clientIP, 5357), nil) {
		t.Skip("the rule does not match the root question in a profile either")
	}

	accessMgr, err := access.NewGlobal([]string{rootRule, "blocked.example"}, nil)
	if err != nil {
		t.Fatal(err)
	}

	geoIP := agdtest.NewGeoIP()
	geoIP.OnData = func(_ string, _ netip.Addr) (l *geoip.Location, err error) { return nil, nil }

	mw := ratelimitmw.New(&ratelimitmw.Config{
		Logger:           slogutil.NewDiscardLogger(),
		Messages:         agdtest.NewConstructor(t),
		FilteringGroup:   &agd.FilteringGroup{},
		ServerGroup:      &agd.ServerGroup{},
		Server:           &agd.Server{Protocol: agd.ProtoDoT},
		StructuredErrors: agdtest.NewSDEConfig(true),
		AccessManager:    accessMgr,
		DeviceFinder: &agdtest.DeviceFinder{
			OnFind: func(_ context.Context, _ *dns.Msg, _, _ netip.AddrPort) (r agd.DeviceResult) { return nil },
		},
		ErrColl:    agdtest.NewErrorCollector(),
		GeoIP:      geoIP,
		Metrics:    ratelimitmw.EmptyMetrics{},
		Limiter:    agdtest.NewRateLimit(),
		Protocols:  []agd.Protocol{agd.ProtoDNS},
		EDEEnabled: true,
	})

	served := 0
	handler := dnsserver.HandlerFunc(
		func(ctx context.Context, rw dnsserver.ResponseWriter, req *dns.Msg) (err error) {
			served++

			return rw.WriteMsg(ctx, req, dnsservertest.NewResp(dns.RcodeSuccess, req))
		},
	)

	for _, tc := range []struct {
		name      string
		host      string
		qt        uint16
		wantServe bool
	}{
		{name: "root_ns_matches_the_global_rule", host: ".", qt: dns.TypeNS, wantServe: false},
		{name: "root_a_is_another_type", host: ".", qt: dns.TypeA, wantServe: true},
		{name: "blocked_name", host: "blocked.example.", qt: dns.TypeA, wantServe: false},
		{name: "other_name", host: "allowed.example.", qt: dns.TypeNS, wantServe: true},
	} {
		t.Run(tc.name, func(t *testing.T) {
			served = 0
			req := &dns.Msg{Question: []dns.Question{{Name: tc.host, Qtype: tc.qt, Qclass: dns.ClassINET}}}
			rw := dnsserver.NewNonWriterResponseWriter(nil, &net.TCPAddr{IP: clientIP.AsSlice(), Port: 5357})
			_ = mw.Wrap(handler).ServeDNS(context.Background(), rw, req)
			got := served != 0 || rw.Msg() != nil
			if got != tc.wantServe {
				t.Errorf("question %q type %d: served/answered = %v, want %v", tc.host, tc.qt, got, tc.wantServe)
			}
		})
	}
}

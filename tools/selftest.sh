#!/bin/bash
# Must-fail corpus: every patch under selftest/<id>/ must make the check of
# <id> fail, with an obligation whose name contains the "# expect:" string.
# Usage: tools/selftest.sh Cxx   (exit 0 = every mutant detected)
cd "$(dirname "$0")/.."
ID="$1"
rc=0; n=0; det=0
for p in selftest/$ID/*.patch; do
  [ -f "$p" ] || continue
  n=$((n+1))
  T=$(mktemp -d "${TMPDIR:-/tmp}/govc-selftest-XXXXXX")
  cp -r /repo "$T/repo"
  if ! git -C "$T/repo" apply "$PWD/$p" 2>/dev/null; then echo "selftest: $p does not apply (stale mutant)"; rc=2; rm -rf "$T"; continue; fi
  exp=$(sed -n 's/^# expect: //p' "$p" | head -1)
  out=$(./bin/govc check --prop "$ID" --repo "$T/repo" --no-evidence 2>&1); code=$?
  names=$(echo "$out" | sed -n 's/.*replay=\(\S*\).*/\1/p' | xargs -r grep -h "^failed obligation:" 2>/dev/null)
  if [ $code -eq 1 ] && { [ -z "$exp" ] || echo "$names" | grep -qF -- "$exp"; }; then det=$((det+1)); echo "selftest: $p detected"; else echo "selftest: $p NOT detected as expected (exit $code, expected obligation containing '$exp'; failed: $(echo $names | head -c 300))"; rc=2; fi
  rm -rf "$T"
done
echo "selftest: $ID mutants applied=$n detected=$det"
exit $rc

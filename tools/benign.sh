#!/bin/bash
# Must-pass corpus: behaviour-preserving edits (renamed locals, reordered
# independent statements, an extracted small helper, an added comment or log
# field) that the check must accept.  Usage: tools/benign.sh [Cxx ...]
cd "$(dirname "$0")/.."
ids="$@"; [ -z "$ids" ] && ids=$(ls benign)
rc=0
for ID in $ids; do
  for p in benign/$ID/*.patch; do
    [ -f "$p" ] || continue
    T=$(mktemp -d "${TMPDIR:-/tmp}/govc-benign-XXXXXX")
    cp -r /repo "$T/repo"
    if ! git -C "$T/repo" apply "$PWD/$p" 2>/dev/null; then echo "benign: $p does not apply"; rc=2; rm -rf "$T"; continue; fi
    out=$(./bin/govc check --prop "$ID" --repo "$T/repo" --no-evidence 2>&1); code=$?
    if [ $code -eq 0 ]; then echo "benign: $p accepted"; else echo "benign: $p FALSE ALARM (exit $code): $(echo "$out" | grep VIOLATION | head -3)"; rc=1; fi
    rm -rf "$T"
  done
done
exit $rc

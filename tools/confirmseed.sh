#!/bin/bash
# usage: tools/confirmseed.sh <seed-dir> [<seed-dir> ...]
# Confirms a seeded change independently of the sub-agent that produced it, in
# a scratch worktree of /repo that is removed afterwards:
#   1. patch.diff applies to a clean checkout and touches no *_test.go file;
#   2. with the patch, both modules build and the whole unedited test suite
#      passes (one retry of a failing package: the servers in the suite bind
#      real ports and collide when several suites run at once);
#   3. the demonstration fails with the patch and passes without it.
# Writes <seed-dir>/confirmed.txt and prints one line per seed.
export GOFLAGS= GOPROXY=off GOSUMDB=off GOTOOLCHAIN=local
for d in "$@"; do
  case "$d" in /*) ;; *) d="$PWD/$d";; esac
  id=$(basename "$d")
  W=$(mktemp -d /tmp/confirm-XXXXXX); rmdir "$W"
  git -C /repo worktree add --detach "$W" HEAD >/dev/null 2>&1 || { echo "$id: cannot create worktree"; continue; }
  log="$d/confirmed.txt"; : > "$log"
  verdict=ok
  if grep -q '^+++ .*_test\.go' "$d/patch.diff"; then echo "patch touches a test file" >> "$log"; verdict=bad; fi
  if ! git -C "$W" apply "$d/patch.diff" 2>>"$log"; then echo "patch does not apply" >> "$log"; verdict=bad; fi
  pkg=$(python3 - "$d" <<'E'
import json,sys,re,os
d=sys.argv[1]
m=json.load(open(d+'/meta.json'))
demo=m.get('demo','')
if not isinstance(demo,str): demo=json.dumps(demo)
# directory the demo is to be copied to: first path ending in demo_test.go
r=re.search(r'((?:internal|cmd)[A-Za-z0-9_/.-]*)/demo_test\.go',demo)
if r: print(r.group(1))
else:
    f=m.get('files',[None])[0]
    print(os.path.dirname(f) if f else '')
E
)
  echo "demo package dir: $pkg" >> "$log"
  case "$pkg" in internal/dnsserver*) mod="$W/internal/dnsserver"; rel="./${pkg#internal/dnsserver}"; rel="${rel%/}"; [ "$rel" = "." ] || rel="./${pkg#internal/dnsserver/}";; *) mod="$W"; rel="./$pkg";; esac
  [ "$pkg" = "internal/dnsserver" ] && rel="."
  if [ $verdict = ok ]; then
    for m in "$W" "$W/internal/dnsserver"; do
      ( cd "$m" && go build ./... ) >>"$log" 2>&1 || { echo "build failed in $m" >> "$log"; verdict=bad; }
      out=$( cd "$m" && go test -vet=off -count=1 ./... 2>&1 ); rc=$?
      if [ $rc -ne 0 ]; then
        failed=$(echo "$out" | awk '/^FAIL[ \t]/ && $2 ~ /\// {print $2}' | sort -u)
        echo "first run failed in: $failed" >> "$log"
        for p in $failed; do
          ( cd "$m" && go test -vet=off -count=1 "$p" ) >>"$log" 2>&1 || { echo "suite fails with the patch: $p" >> "$log"; verdict=bad; }
        done
        [ -z "$failed" ] && { echo "$out" | tail -20 >> "$log"; verdict=bad; }
      fi
      echo "suite in ${m#$W}/ : rc=$rc" >> "$log"
    done
  fi
  if [ $verdict = ok ]; then
    cp "$d/demo_test.go.txt" "$W/$pkg/demo_test.go"
    ( cd "$mod" && go test -vet=off -count=1 -timeout 300s -run 'TestDemo' "$rel" ) > "$W.with" 2>&1; with=$?
    git -C "$W" apply -R "$d/patch.diff"
    ( cd "$mod" && go test -vet=off -count=1 -timeout 300s -run 'TestDemo' "$rel" ) > "$W.without" 2>&1; without=$?
    echo "demo with patch: rc=$with; without: rc=$without" >> "$log"
    tail -5 "$W.with" >> "$log"; echo "--- without:" >> "$log"; tail -3 "$W.without" >> "$log"
    grep -q 'no tests to run' "$W.with" && { echo "demo did not run" >> "$log"; verdict=bad; }
    [ $with -ne 0 ] && [ $without -eq 0 ] || verdict=bad
  fi
  echo "verdict: $verdict" >> "$log"
  echo "$id: $verdict"
  git -C /repo worktree remove --force "$W" >/dev/null 2>&1; rm -rf "$W" "$W.with" "$W.without"
done

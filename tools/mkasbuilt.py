#!/usr/bin/env python3
"""Generates the per-property "as built" section of DESIGN.md (between the
markers ASBUILT-BEGIN / ASBUILT-END) from what the machinery itself knows:
claims.py (what is decided / assumed), evidence/*.json (numbers of the last
run), selftest/<id>/*.patch (must-fail corpus with the expected obligation),
seeded/<id>-k (changes produced by fresh sub-agents, with the result recorded
in seeded/RESULTS.txt) and known_findings.txt."""
import json, os, re, glob, textwrap

ROOT = os.path.dirname(os.path.dirname(os.path.abspath(__file__)))
CLAIMS, NA = {}, {}
def claim(pid, text, note, ref): CLAIMS[pid] = dict(text=text, note=note, ref=ref)
def na(pid, reason): NA[pid] = reason
exec(open(os.path.join(ROOT, "tools", "claims.py")).read())

props = {}
for line in open(os.path.join(ROOT, "properties.jsonl")):
    line = line.strip()
    if line:
        p = json.loads(line); props[p["id"]] = p

results = {}
rp = os.path.join(ROOT, "seeded", "RESULTS.txt")
if os.path.exists(rp):
    for l in open(rp):
        m = re.match(r"(\S+) \[(C\d+)\]: (?:seed \S+: )?(DETECTED by|MISSED)(.*)", l.strip())
        if m:
            results.setdefault(m.group(1), []).append((m.group(2), m.group(3), m.group(4).strip()))

findings = {}
for l in open(os.path.join(ROOT, "known_findings.txt")):
    m = re.match(r"(fixed|known): property=(C\d+) (.*)", l.strip())
    if m:
        findings.setdefault(m.group(2), []).append((m.group(1), m.group(3)))

def wrap(s, ind=""):
    return "\n".join(textwrap.wrap(s, 78, initial_indent=ind, subsequent_indent=ind, break_long_words=False, break_on_hyphens=False))

out = []
for pid in sorted(props):
    p = props[pid]
    out.append("### %s — %s\n" % (pid, p["title"]))
    if pid in CLAIMS:
        c = CLAIMS[pid]
        out.append("**Decided by the check (as built).**  " + c["text"] + "\n")
        out.append("**Trusted, assumed, not decided.**  " + c["note"] + "\n")
    else:
        out.append("**Not applicable.**  " + NA.get(pid, "") + "\n")
    ev = os.path.join(ROOT, "evidence", pid + ".json")
    if os.path.exists(ev):
        e = json.load(open(ev)); cv = e["coverage"]
        kinds = ", ".join("%s %d" % (k, v) for k, v in sorted(cv.get("obligations_by_kind", {}).items()))
        out.append("**Last run** (%s tier): %d functions under contract, %d obligations (%s), %d discharged; covers %d, shown reachable %d; solve wall %.1f s."
                   % (e["tier"], len(cv.get("functions_under_contract", [])), cv["obligations"], kinds, cv["discharged"],
                      cv.get("vacuity", {}).get("covers", 0), cv.get("vacuity", {}).get("reachable", 0), cv.get("timing_s", {}).get("solve_wall", 0)))
        out.append("Functions under contract: " + ", ".join("`%s`" % f for f in cv.get("functions_under_contract", [])) + ".")
        if cv.get("bounded_standins"):
            for b in cv["bounded_standins"]:
                out.append("Bounded stand-in (NOT proved): `%s`, bound: %s." % (b.get("function"), b.get("bound")))
        nd = cv.get("not_decided_by_contracts") or []
        if nd:
            out.append("Listed as not decided in the evidence: " + "; ".join(nd) + ".")
        out.append("")
    if pid in findings:
        out.append("**Defects behind this property.**")
        for kind, text in findings[pid]:
            out.append("* %s: %s" % (kind, text))
        out.append("")
    muts = sorted(glob.glob(os.path.join(ROOT, "selftest", pid, "*.patch")))
    if muts:
        out.append("**Must-fail corpus** (`selftest/%s`, %d changes; each is reported by the obligation named):" % (pid, len(muts)))
        for m in muts:
            exp = ""
            for l in open(m):
                if l.startswith("# expect:"):
                    exp = l[len("# expect:"):].strip(); break
            out.append("* `%s` → `%s`" % (os.path.basename(m)[:-6], exp))
        out.append("")
    seeds = sorted(d for d in glob.glob(os.path.join(ROOT, "seeded", pid + "-*")) if os.path.isdir(d))
    if seeds:
        out.append("**Seeded changes** (fresh sub-agents given only the property text; each compiles, passes the test suite and has a demonstration):")
        for d in seeds:
            n = os.path.basename(d)
            title, indep = "", ""
            try:
                mj = json.load(open(os.path.join(d, "meta.json")))
                title = mj.get("title", "")
                if mj.get("independence"):
                    indep = " [not blind: the sub-agent looked into /verif, see §9.3]"
            except Exception:
                pass
            rs = results.get(n, [])
            det = [r for r in rs if r[1].startswith("DETECTED")]
            if det:
                obs = [o for o in det[0][2].split(";") if o]
                ob = obs[0]
                res = "reported by the check of %s: `%s`" % (det[0][0], ob)
                if all(o.startswith("bounded-") for o in obs):
                    res += " (by the bounded stand-in only - not by a proof)"
            elif rs:
                res = "**missed** (outside what is under contract; see §7 and §9.3)"
            else:
                res = "not yet run"
            out.append("* `%s` %s%s — %s" % (n, title, indep, res))
        out.append("")
    out.append("")

text = "\n".join(out)
dp = os.path.join(ROOT, "DESIGN.md")
d = open(dp).read()
b, e = "<!-- ASBUILT-BEGIN -->", "<!-- ASBUILT-END -->"
if b in d and e in d:
    d = d[:d.index(b) + len(b)] + "\n\n" + text + "\n" + d[d.index(e):]
    open(dp, "w").write(d)
    print("DESIGN.md: as-built section regenerated (%d lines)" % text.count("\n"))
else:
    print(text)

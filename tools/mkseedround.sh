#!/bin/bash
# usage: tools/mkseedround.sh <round-dir> Cxx [Cyy ...]
# Prepares one scratch git worktree of /repo per property for a seed-producing
# sub-agent: <round-dir>/Cxx (worktree, contract files hidden with
# skip-worktree and deleted, so neither the files nor `git status`/`git diff`
# show them), <round-dir>/Cxx.json (the property's own entry of
# properties.jsonl and nothing else), <round-dir>/PROMPT-Cxx.txt and
# <round-dir>/out/.  Nothing from /verif other than the property text goes in.
set -e
cd "$(dirname "$0")/.."
R="$1"; shift
mkdir -p "$R/out"
for ID in "$@"; do
  W="$R/$ID"
  git -C /repo worktree add --detach "$W" HEAD >/dev/null 2>&1
  ( cd "$W"
    fs=$(git ls-files | grep 'zz_contracts_verif\.go$' || true)
    [ -n "$fs" ] && git update-index --skip-worktree $fs && rm -f $fs
  )
  python3 - "$ID" "$R" <<'E'
import json,sys
i,r=sys.argv[1],sys.argv[2]
for l in open('/verif/properties.jsonl'):
    p=json.loads(l)
    if p['id']==i:
        json.dump(p,open(f'{r}/{i}.json','w'),indent=1)
E
  sed "s#@R@#$R#g; s#@ID@#$ID#g" > "$R/PROMPT-$ID.txt" <<'E'
You are working in a scratch git worktree of the Go project AdguardTeam/AdGuardDNS at @R@/@ID@ (your working directory).

HARD BOUNDARY: work ONLY inside @R@/@ID@ and @R@/out/@ID@-*. Do not read, list, open, search or write anything under /repo or /verif, for any reason - not to look for earlier work, not to avoid duplicates, not for examples. Everything you may use is in your worktree and in @R@/@ID@.json. (The Go module cache under /root/go and the Go installation may be read as usual.)

There is no network: use `GOFLAGS= GOPROXY=off GOSUMDB=off go ...`; the repo is a go.work workspace of two modules - the root and internal/dnsserver - so do not pass -mod=mod, and run `go build ./... && go test -vet=off -count=1 ./...` once from @R@/@ID@ and once from @R@/@ID@/internal/dnsserver. Do not run git commands that show history or other revisions (git show, git log -p, git stash, git checkout of other revisions); `git status`, `git diff` and `git checkout -- <file>` on your own edits are fine.

The project should satisfy the semantic property described in @R@/@ID@.json (read it fully: statement, quantifier, anchors).

Your task: produce TWO different, realistic code changes (the kind a developer could make by mistake during a refactor, optimisation or feature tweak) that BREAK this property. Prefer changes that need something specific to manifest: a particular interleaving, a fault or error at a particular point, a multi-step sequence of operations, an unusual input or boundary value, or two cooperating sites that each look fine alone. Look beyond the single most central comparison: at the less central functions and paths the property's anchors name, at helper functions those call, at error paths, at the order of steps. Each change must:
 1. compile and pass the whole existing test suite, unedited, in both modules;
 2. need something specific to manifest - it must not break every request, and ordinary use must not expose it at once;
 3. come with a demonstration: a Go test file (in the package of the changed code, named demo_test.go, test name TestDemo_@ID@) that FAILS with your change applied and PASSES on the unchanged code, and shows the property being violated (not merely an internal value differing).

For each change k in {1,2} write into @R@/out/@ID@-k/ : patch.diff (`git diff` restricted to your changed non-test source file(s); it must apply with `git apply` to a clean checkout), demo_test.go.txt (the demonstration test), demonstration.txt (output of the demo run with and without the change), meta.json with keys property ("@ID@"), title, what_breaks, trigger, files, tests_run, demo (where to copy the demo file and how to run it). After saving change 1, revert it with `git checkout -- <the files you changed>` and remove the demo file before making change 2; at the end leave the worktree with no modifications to tracked .go files. Report briefly what the two changes are.
E
  echo "prepared $W"
done

#!/bin/bash
# usage: tools/seedscan.sh <transcript.jsonl> [allowed-prefix]
# Scans the TOOL INPUTS (commands, file paths, search paths and patterns) of a
# sub-agent transcript for anything under /verif or /repo, absolute or by the
# names of /verif's contents (in case a relative path was used), and for
# commands that are not anchored in the agent's own scratch tree.
# Second test, on the WHOLE transcript (tool results included): text of the
# contract files (their banner line or //@ directives).  The scratch worktrees
# have those files deleted, but an unrestricted `git diff` / `git show` prints
# deleted files in full - that is how two agents came to see one contract file
# each.
# Prints the offending inputs (shortened) and exits 1 if there are any;
# exits 0 and prints "clean" otherwise.  A seed may be called blind only if
# the transcript of the agent that produced it is clean.
f="$1"; allow="${2:-/tmp/seed}"
inputs=$(grep -o '"\(command\|file_path\|path\|pattern\|notebook_path\)":"\(\\.\|[^"\\]\)*' "$f")
bad=$(echo "$inputs" | grep -E '/verif|(^|[^a-zA-Z0-9_./-])/repo([/ "]|$)|(^|[ "/=])(seeded/|DESIGN\.md|MANIFEST\.json|known_findings|selftest/|contracts/ext|props/C[0-9]|evidence/C[0-9])' )
# the prompt file itself mentions /repo and /verif in its boundary text; reading the prompt is fine
bad=$(echo "$bad" | grep -v "^\"file_path\":\"$allow[0-9]*/PROMPT" | grep -v '^$')
ctext=$(grep -c 'Contracts for govc' "$f"); cdir=$(grep -o '//@ \(func\|requires\|ensures\|pred\|ghost\|lock\|interface\) ' "$f" | wc -l)
if [ "$ctext" != 0 ] || [ "$cdir" != 0 ]; then echo "NOT CLEAN: contract text in the transcript (banner lines: $ctext, directives: $cdir) - a tool result showed a contract file"; exit 1; fi
if [ -n "$bad" ]; then echo "NOT CLEAN: $(echo "$bad" | wc -l) tool input(s):"; echo "$bad" | cut -c1-220 | head -12; exit 1; fi
echo "clean ($(echo "$inputs" | wc -l) tool inputs scanned)"

#!/bin/bash
# usage: mkbenign.sh Cxx name file 'sed-expr' [file 'sed-expr' ...]
# Builds benign/Cxx/name.patch: a behaviour-preserving edit that the check of Cxx must ACCEPT.
set -e
ID=$1; NAME=$2; shift 2
T=$(mktemp -d /tmp/mkben-XXXXXX)
git -C /repo worktree add -q --detach "$T/wt" HEAD
while [ $# -gt 0 ]; do f=$1; e=$2; shift 2; sed -i -E "$e" "$T/wt/$f"; done
mkdir -p /verif/benign/$ID
git -C "$T/wt" diff > /verif/benign/$ID/$NAME.patch
[ -s /verif/benign/$ID/$NAME.patch ] || echo "EMPTY $NAME"
( cd "$T/wt" && pk=$(dirname $f) && if [[ $f == internal/dnsserver/* ]]; then cd internal/dnsserver && pk=${pk#internal/dnsserver}; pk=.${pk:+/}${pk#/}; else pk=./$pk; fi && GOFLAGS= GOPROXY=off GOSUMDB=off go build $pk 2>&1 | head -5 )
git -C /repo worktree remove --force "$T/wt"; rm -rf "$T"

#!/bin/bash
# Usage: tools/tryseed.sh Cxx <dir-with-patch.diff> [more dirs...]
# Applies each seeded change to a scratch copy of /repo and runs the check of
# Cxx against it; prints whether (and by which obligation) it is detected.
cd "$(dirname "$0")/.."
ID="$1"; shift
for d in "$@"; do
  case "$d" in /*) ;; *) d="$PWD/$d";; esac
  T=$(mktemp -d "${TMPDIR:-/tmp}/govc-seed-XXXXXX")
  cp -r "${REPO_BASE:-/repo}" "$T/repo"
  if ! git -C "$T/repo" apply "$d/patch.diff" 2>/dev/null; then echo "seed $d: patch does not apply"; rm -rf "$T"; continue; fi
  out=$(./bin/govc check --prop "$ID" --repo "$T/repo" --no-evidence 2>&1); code=$?
  names=$(echo "$out" | sed -n 's/.*replay=\(\S*\).*/\1/p' | xargs -r grep -h "^failed obligation:" 2>/dev/null | sed 's/failed obligation: //' | head -4 | tr '\n' ';')
  if [ $code -eq 1 ]; then echo "seed $d: DETECTED by $names"; else echo "seed $d: MISSED (exit $code)"; fi
  rm -rf "$T"
done

#!/bin/bash
# Runs every seeded change under seeded/ against the check of its property (and
# optional extra properties listed in seeded/<dir>/also) and writes seeded/RESULTS.txt.
cd "$(dirname "$0")/.."
: > seeded/RESULTS.txt
for d in seeded/*/; do
  d=${d%/}; n=$(basename $d); id=${n%%-*}
  [ -f $d/patch.diff ] || continue
  ids="$id"; [ -f $d/also ] && ids="$ids $(cat $d/also)"
  for i in $ids; do
    r=$(tools/tryseed.sh $i $d 2>&1 | tail -1 | sed "s|seed $d: ||")
    echo "$n [$i]: $r" | tee -a seeded/RESULTS.txt
    case "$r" in DETECTED*) break;; esac
  done
done

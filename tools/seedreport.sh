#!/bin/bash
# Runs every seeded change under seeded/ against the check of its property (and
# optional extra properties listed in seeded/<dir>/also) and writes
# seeded/RESULTS.txt.  Properties are processed in parallel (JOBS, default 5),
# the seeds of one property one after the other.
cd "$(dirname "$0")/.."
JOBS=${JOBS:-5}
one() {
  id=$1
  : > seeded/.results.$id
  for d in $(ls -d seeded/$id-*/ 2>/dev/null | sort -t- -k2n); do
    d=${d%/}; n=$(basename $d)
    [ -f $d/patch.diff ] || continue
    ids="$id"; [ -f $d/also ] && ids="$ids $(cat $d/also)"
    for i in $ids; do
      r=$(tools/tryseed.sh $i $d 2>&1 | tail -1 | sed "s|seed .*$d: ||")
      echo "$n [$i]: $r" >> seeded/.results.$id
      case "$r" in DETECTED*) break;; esac
    done
  done
}
export -f one
printf 'C%02d\n' $(seq 1 20) | xargs -P $JOBS -I{} bash -c 'one {}'
: > seeded/RESULTS.txt
for i in $(seq 1 20); do id=$(printf 'C%02d' $i); cat seeded/.results.$id >> seeded/RESULTS.txt; rm -f seeded/.results.$id; done
grep -c DETECTED seeded/RESULTS.txt

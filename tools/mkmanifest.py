#!/usr/bin/env python3
"""Regenerates /verif/MANIFEST.json from the table below (kept in one place so
that MANIFEST.json is always valid and current)."""
import json, os, subprocess

ROOT = os.path.dirname(os.path.dirname(os.path.abspath(__file__)))

# property id -> (claimed?, level text, level note, design ref, not-applicable reason)
CLAIMS = {}

def claim(pid, text, note, ref):
    CLAIMS[pid] = dict(text=text, note=note, ref=ref)

NA = {}
def na(pid, reason):
    NA[pid] = reason

exec(open(os.path.join(ROOT, "tools", "claims.py")).read())

def hooks_commits():
    try:
        out = subprocess.check_output(["git", "-C", "/repo", "log", "--format=%h %s"], text=True)
    except Exception:
        return []
    return [l.split()[0] for l in out.splitlines() if l.split(" ", 1)[1].startswith("verif:")]

checks = []
for pid in sorted(CLAIMS):
    c = CLAIMS[pid]
    checks.append({
        "property_id": pid,
        "quick_cmd": "./check %s --tier quick" % pid,
        "thorough_cmd": "./check %s --tier thorough" % pid,
        "evidence_file": "/verif/evidence/%s.json" % pid,
        "replay_cmd_template": "./check %s --replay {path}" % pid,
        "engine": "govc",
        "level_claimed": {"category": "proof", "text": c["text"], "design_ref": c["ref"]},
        "level_note": c["note"],
        "technique": "contract-based deductive verification: weakest-precondition VCs generated from go/ssa of the working tree against //@ contracts, discharged by z3/cvc5",
    })

manifest = {
    "version": 1,
    "setup_cmd": "cd /verif/govc && GOFLAGS=-mod=mod GOPROXY=off GOSUMDB=off GOTOOLCHAIN=local go build -o ../bin/govc .",
    "hooks": {
        "guard": "verif",
        "enable": "govc loads /repo with -tags=verif; the hook files (zz_contracts_verif.go) are comment-only contract files, no code",
        "baseline_off_cmd": json.load(open("/root/.vp/BASELINE.json"))["cmd"],
        "source_commits": hooks_commits(),
        "add_only": True,
    },
    "engines": [{
        "name": "govc",
        "path": "/verif/govc",
        "serves_properties": sorted(CLAIMS),
        "kind_free_text": "deductive verifier written for this task: go/packages + go/ssa -> weakest-precondition verification conditions (SMT-LIB) per obligation, Gobra-style contracts in comment-only files behind the verif build tag, portfolio of z3 5.1.0 / z3 4.8.12 / cvc5 1.0.3",
    }],
    "checks": checks,
    "not_applicable": [{"property_id": p, "reason": NA[p]} for p in sorted(NA) if p not in CLAIMS],
    "notes": "See DESIGN.md. Exit 2 of a check means a tool error (says nothing about /repo).",
}
json.dump(manifest, open(os.path.join(ROOT, "MANIFEST.json"), "w"), indent=1)
print("wrote MANIFEST.json:", len(checks), "checks,", len(manifest["not_applicable"]), "not applicable")

# Table of claims; executed by mkmanifest.py.
NOTBUILT = "check not built yet in this round (contracts planned in DESIGN.md section 5); no claim is made"
for i in range(1, 21):
    na("C%02d" % i, NOTBUILT)

claim("C18",
      "Proof, per function and for all inputs/states: counter.increment/decrement preserve the counter invariant (current <= stop, hysteresis at resume, exact uint64 arithmetic); the listener's monitor (lock invariant K && current == outstanding tokens) is re-established at every unlock from any invariant-satisfying state, i.e. under every interleaving of the critical sections; Accept on a closed listener keeps no token. Safety half of the property only.",
      "Trusted: govc (the VC generator), the SMT solvers, go/ssa. Assumed: sync.Cond/Mutex provide mutual exclusion, sync/atomic is atomic, observers (slog, prometheus) have no effect on the counter. Not decided: liveness (waiting accepts eventually proceed).",
      "DESIGN.md section 5 C18")

claim("C19",
      "Proof for all methods, paths and header sets: shouldProxy accepts only the four documented shapes and only paths whose slash-free segments stay under the first segment after dot-segment normalisation (loop invariant over the segment list); ServeHTTP reaches the reverse proxy only then, and at that call the four client-supplied forwarding headers are absent and X-Connecting-Ip is exactly the host of RemoteAddr (the property is the precondition of the assumed ReverseProxy.ServeHTTP contract); otherwise the backend is not contacted.",
      "Trusted: govc, SMT solvers, go/ssa. Assumed (from their source): strings.SplitN/TrimPrefix as uninterpreted functions with size facts, http.Header Set/Del/Get map semantics with canonical keys, Request.WithContext shallow copy, netutil.SplitHost; httputil.ReverseProxy in Rewrite mode and the backend's own normalisation are not verified.",
      "DESIGN.md section 5 C19")

claim("C08",
      "Proof for all messages, EDNS settings, maxima and protocols: maxDNSSize is the stated table; every response is truncated (miekg Truncate, assumed contract from its source) to exactly maxDNSSize(network, client's EDNS size, configured maximum) after its OPT record is in place; TC set implies an empty answer section; a query with OPT gets an OPT back with the client's UDP size, version 0 and DO mirrored, and no OPT is invented otherwise; padding is added only under HasPaddingSupport (DoT/DoH/DoQ) and only when the request carries a padding option; keep-alive only when requested; the two-byte stream prefix never covers more than 65535 bytes. Quantified loop invariants, exact uint16/uint32 arithmetic.",
      "Trusted: govc, SMT solvers, go/ssa. Assumed from miekg/dns source: IsEdns0 (last OPT), OPT accessors (bit layout of the TTL field), Truncate (keeps the last OPT, never trims question/OPT), PackBuffer, EDNS0 option codes; rand.Intn range; slices.Grow; binary.BigEndian.PutUint16. NOT decided: the wire-size bound itself (question+OPT larger than the limit is sent oversize by miekg Truncate; DoH padding after truncation) - dependency code, see DESIGN section 6.",
      "DESIGN.md section 5 C08")

claim("C06",
      "Proof with a ghost stamp per receive buffer (stamped[a] = number of leading bytes of backing array a that belong to the message being received; pooled buffers come with stamp 0): the decoder's assumed contract requires every byte it is given to be stamped, and that precondition is discharged on every receive path - UDP (buf[:n]), TCP/DoT (buffer resliced to the announced length, then ReadFull), DoQ (readAll loop invariant, then buf[2:n]), DoH POST/GET (fresh slices), upstream UDP/TCP replies (buf[:n]) - for all lengths, contents and buffer histories, including the closures handed to the worker pool (precondition checked at the hand-over).",
      "Trusted: govc, SMT solvers, go/ssa. Assumed: miekg/dns Unpack reads only msg[0:len(msg)]; reader contracts (ReadFromSession, io.ReadFull, io.Reader.Read, io.ReadAll, base64) stamp exactly what they write; a pooled buffer is owned by one request between Get and Put; byte-slice pools hold whole buffers of their constructor's size. Not covered: httpRequestToMsgJSON and isDoH (assumed contracts), the callers of UpstreamPlain.readMsg establishing its precondition (buffer not yet stamped).",
      "DESIGN.md section 5 C06")

claim("C01",
      "Proof over ghost effect state (writes per response writer with the ID/rcode/question handed over, serve count per handler): acceptMsg is the documented decision table and total on every message value; a response is ignored without any write or handler call; unsupported opcode / wrong section counts get exactly one NOTIMP / FORMERR response with the request's ID and first question and never reach the handler; an acceptable query reaches the handler exactly once, and a handler error yields a SERVFAIL with the request's ID and question; the recorder forwards each write once; `written` is true iff something was written; undecodable bytes are neither answered nor handed to the handler; only UDP/TCP writers' responses are disposed. No nil dereference, index or type-assertion failure in these functions for any input.",
      "Trusted: govc, SMT solvers, go/ssa. Assumed: miekg/dns SetRcode/SetReply/Unpack contracts (from source); interface contracts for ResponseWriter.WriteMsg and Handler.ServeDNS including handler discipline H1 (a handler reaches a recorder only through WriteMsg, leaves the request's ID/opcode/question and the server object alone); metrics/log observers are effect-free; recover() is a no-op on non-panicking paths. Not decided: byte-level codecs, the per-transport framing of DoH/DoQ/DNSCrypt responses, transport parity as a whole.",
      "DESIGN.md section 5 C01")

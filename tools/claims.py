# Table of claims; executed by mkmanifest.py.
NOTBUILT = "check not built yet in this round (contracts planned in DESIGN.md section 5); no claim is made"
for i in range(1, 21):
    na("C%02d" % i, NOTBUILT)

claim("C18",
      "Proof, per function and for all inputs/states: counter.increment/decrement preserve the counter invariant (current <= stop, hysteresis at resume, exact uint64 arithmetic); the listener's monitor (lock invariant K && current == outstanding tokens) is re-established at every unlock from any invariant-satisfying state, i.e. under every interleaving of the critical sections; Accept on a closed listener keeps no token. Safety half of the property only.",
      "Trusted: govc (the VC generator), the SMT solvers, go/ssa. Assumed: sync.Cond/Mutex provide mutual exclusion, sync/atomic is atomic, observers (slog, prometheus) have no effect on the counter. Not decided: liveness (waiting accepts eventually proceed).",
      "DESIGN.md section 5 C18")

#!/bin/bash
# usage: mkmutant.sh Cxx name "expect" file 'sed-expr' [file 'sed-expr' ...]
# Builds selftest/Cxx/name.patch from sed edits on a scratch copy of the listed files.
set -e
ID=$1; NAME=$2; EXP=$3; shift 3
T=$(mktemp -d /tmp/mkmut-XXXXXX)
git -C /repo worktree add -q --detach "$T/wt" HEAD
while [ $# -gt 0 ]; do
  f=$1; e=$2; shift 2
  sed -i -E "$e" "$T/wt/$f"
done
mkdir -p /verif/selftest/$ID
{ echo "# expect: $EXP"; git -C "$T/wt" diff; } > /verif/selftest/$ID/$NAME.patch
if [ $(wc -l < /verif/selftest/$ID/$NAME.patch) -lt 3 ]; then echo "EMPTY MUTANT $NAME"; fi
( cd "$T/wt" && pk=$(dirname $f) && if [[ $f == internal/dnsserver/* ]]; then cd internal/dnsserver && pk=${pk#internal/dnsserver}; pk=.${pk:+/}${pk#/}; else pk=./$pk; fi && GOFLAGS= GOPROXY=off GOSUMDB=off go build $pk 2>&1 | head -5 )
git -C /repo worktree remove --force "$T/wt"; rm -rf "$T"
